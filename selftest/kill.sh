#!/bin/bash
# kill.sh <patch> <prop> [tier]   apply a patch to /repo's working tree, run the check, undo the patch.
# prints: <patch> <prop> killed|survived|inconclusive (rc)
patch=$(readlink -f "$1"); prop=$2; tier=${3:-quick}
cd /repo || exit 3
if [ -n "$(git status --porcelain)" ]; then echo "/repo not clean"; exit 3; fi
if ! git apply "$patch"; then echo "$patch does not apply"; exit 3; fi
export GOFLAGS=-mod=mod GOPROXY=off GOSUMDB=off GOTOOLCHAIN=local
if [ -z "${SKIP_UPSTREAM:-}" ]; then
  if ! go test -vet=off -count=1 ./... >/tmp/kill_upstream.$$ 2>&1; then up="UPSTREAM-TESTS-FAIL"; else up="upstream-ok"; fi
  rm -f /tmp/kill_upstream.$$
fi
out=$(cd /verif && VERIF_SEED=${VERIF_SEED:-1} ./check $prop $tier 2>&1); rc=$?
git checkout -- . ; git clean -fdq
case $rc in
 0) res=survived ;;
 1) res=killed ;;
 2) res=inconclusive ;;
 *) res="rc=$rc" ;;
esac
echo "$(basename $patch) $prop $tier $res ${up:-} :: $(echo "$out" | grep -m1 -E '^violation|INCONCLUSIVE' | cut -c1-300)"
# evidence/replay written by a mutant run are not evidence of the real tree
cd /verif && git checkout -- evidence 2>/dev/null; rm -rf /verif/replay
exit 0
