#!/usr/bin/env python3
"""seed_verify.py <Cxx> <A|B> [check ids...]
Confirm a sub-agent's seeded change independently and run our checks against it.
 1. scratch worktree of /repo HEAD (outside /repo and /verif): demo passes on the unchanged code,
    fails with patch.diff applied; the upstream suite passes 3x with the patch (demo removed).
 2. apply the patch to /repo's working tree, run ./check <id> quick for the listed checks
    (default: the property's own check), undo the patch.
 3. keep it as /verif/seeded/<Cxx>-<X>/ {patch.diff, demo_test.go, meta.json}.
"""
import json, os, shutil, subprocess, sys, tempfile, time

ENV = dict(os.environ, GOFLAGS='-mod=mod', GOPROXY='off', GOSUMDB='off', GOTOOLCHAIN='local')


def run(cmd, cwd=None, timeout=3600):
    p = subprocess.run(cmd, cwd=cwd, env=ENV, capture_output=True, text=True, timeout=timeout)
    return p.returncode, (p.stdout + p.stderr)


def main():
    prop, x = sys.argv[1], sys.argv[2]
    checks = sys.argv[3:] or [prop]
    tier = os.environ.get('SEED_TIER', 'quick')
    rnd = os.environ.get('SEED_ROUND', '1')
    sid = f'{prop}-{x}' if rnd == '1' else f'{prop}-r{rnd}{x}'
    src = f'/tmp/seed/{prop}/out/{x}' if rnd == '1' else f'/tmp/seed{rnd}/out/{prop}/{x}'
    if not os.path.isdir(src):
        src = f'/verif/seeded/{sid}'
    patch = os.path.join(src, 'patch.diff')
    demo = os.path.join(src, 'demo_test.go')
    meta = json.load(open(os.path.join(src, 'meta.json')))
    res = {'confirmed_at': time.strftime('%Y-%m-%dT%H:%M:%SZ', time.gmtime())}
    wt = tempfile.mkdtemp(prefix='seedwt-', dir='/tmp')
    os.rmdir(wt)
    assert run(['git', '-C', '/repo', 'worktree', 'add', '--detach', wt, 'HEAD'])[0] == 0
    try:
        shutil.copy(demo, os.path.join(wt, 'zz_seed_demo_test.go'))
        rc, out = run(['go', 'test', '-vet=off', '-count=1', '-run', 'TestSeedDemo', '.'], cwd=wt)
        res['demo_on_unchanged_code'] = 'PASS' if rc == 0 else 'FAIL'
        rc, out = run(['git', 'apply', patch], cwd=wt)
        res['patch_applies'] = rc == 0
        rc, out = run(['go', 'test', '-vet=off', '-count=1', '-run', 'TestSeedDemo', '.'], cwd=wt)
        res['demo_with_patch'] = 'PASS' if rc == 0 else 'FAIL'
        res['demo_failure_excerpt'] = out[-600:] if rc != 0 else ''
        os.remove(os.path.join(wt, 'zz_seed_demo_test.go'))
        ok = 0
        for _ in range(3):
            rc, out = run(['go', 'test', '-vet=off', '-count=1', './...'], cwd=wt)
            ok += rc == 0
        res['upstream_suite_with_patch'] = f'{ok}/3 pass'
    finally:
        run(['git', '-C', '/repo', 'worktree', 'remove', '--force', wt])
    valid = res['demo_on_unchanged_code'] == 'PASS' and res['demo_with_patch'] == 'FAIL' and ok == 3 and res['patch_applies']
    res['valid_seed'] = valid
    results = {}
    if valid:
        # the patched library lives in a side worktree (VERIF_REPO), /repo itself stays untouched
        wt2 = tempfile.mkdtemp(prefix='seedrun-', dir='/tmp')
        os.rmdir(wt2)
        assert run(['git', '-C', '/repo', 'worktree', 'add', '--detach', wt2, 'HEAD'])[0] == 0
        assert run(['git', 'apply', patch], cwd=wt2)[0] == 0
        ENV['VERIF_REPO'] = wt2
        try:
            for c in checks:
                t0 = time.time()
                rc, out = run(['./check', c, tier], cwd='/verif')
                first = next((l for l in out.splitlines() if l.startswith('violation:')), '')
                results[c] = {'rc': rc, 'verdict': {0: 'survived', 1: 'killed', 2: 'inconclusive'}.get(rc, f'rc={rc}'),
                              'wall_s': round(time.time() - t0, 1), 'first_violation': first[:400], 'tier': tier}
        finally:
            ENV.pop('VERIF_REPO', None)
            run(['git', '-C', '/repo', 'worktree', 'remove', '--force', wt2])
            run(['git', 'checkout', '--', 'evidence'], cwd='/verif')
            shutil.rmtree('/verif/replay', ignore_errors=True)
    dst = f'/verif/seeded/{sid}'
    os.makedirs(dst, exist_ok=True)
    if os.path.abspath(src) != os.path.abspath(dst):
        shutil.copy(patch, dst)
        shutil.copy(demo, dst)
    old = {}
    if os.path.exists(os.path.join(dst, 'meta.json')):
        try:
            old = json.load(open(os.path.join(dst, 'meta.json')))
        except Exception:
            old = {}
    m = {'id': sid, 'breaks_property': prop, 'summary': meta.get('summary'), 'needs': meta.get('needs'), 'files': meta.get('files'),
         'source': 'independent sub-agent given only the property text and a scratch worktree',
         'confirmation': res, 'checks_run': dict(old.get('checks_run', {}), **results)}
    json.dump(m, open(os.path.join(dst, 'meta.json'), 'w'), indent=1)
    print(f"{sid} valid={valid} " + ' '.join(f"{c}:{r['verdict']}({r['wall_s']}s)" for c, r in results.items()))
    for c, r in results.items():
        if r['first_violation']:
            print('   ', r['first_violation'][:300])


if __name__ == '__main__':
    main()
