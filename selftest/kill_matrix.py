#!/usr/bin/env python3
"""kill_matrix.py [quick|thorough]
Apply every mutant (mutants/*.patch) and every confirmed seeded change (seeded/*/patch.diff) to
/repo's working tree, one at a time, run the check(s) of the property it breaks, undo it, and
write selftest/kill_matrix.json + selftest/kill_matrix.md.
/repo must be clean; it is restored after every mutant."""
import glob, json, os, re, subprocess, sys, time

ENV = dict(os.environ, GOFLAGS='-mod=mod', GOPROXY='off', GOSUMDB='off', GOTOOLCHAIN='local')
tier = sys.argv[1] if len(sys.argv) > 1 else 'quick'
REVERT = {'D1': ['C04', 'C16'], 'D2': ['C10'], 'D3': ['C10'], 'D4': ['C10'], 'D5': ['C10'], 'D17': ['C10'], 'D6': ['C05'], 'D7': ['C12', 'C04'],
          'D8': ['C15'], 'D9': ['C18', 'C04'], 'D10': ['C09'], 'D11-D12': ['C09'], 'D12': ['C09'], 'D13': ['C08'], 'D14b': ['C17'], 'D15': ['C02']}
EXTRA = {'seed-r2-port-not-reset-on-reinterpretation': ['C14', 'C18'], 'seed-r2-params-not-reset-on-reinterpretation': ['C15', 'C14'],
         'C05-val-untrimmed-from': ['C05', 'C07']}


def sh(cmd, cwd=None):
    p = subprocess.run(cmd, cwd=cwd, env=ENV, capture_output=True, text=True)
    return p.returncode, p.stdout + p.stderr


def targets(name):
    if name in EXTRA:
        return EXTRA[name]
    m = re.match(r'revert-(D[0-9A-Za-z-]+)$', name)
    if m:
        return REVERT[m.group(1).replace('D11-D12', 'D11-D12')]
    m = re.match(r'(C\d\d)-', name)
    return [m.group(1)] if m else []


def run_one(patch, checks):
    assert sh(['git', '-C', '/repo', 'status', '--porcelain'])[1].strip() == '', '/repo not clean'
    rc, out = sh(['git', '-C', '/repo', 'apply', patch])
    if rc != 0:
        return {c: {'verdict': 'patch does not apply'} for c in checks}
    res = {}
    try:
        for c in checks:
            t0 = time.time()
            rc, out = sh(['./check', c, tier], cwd='/verif')
            first = next((l for l in out.splitlines() if l.startswith('violation:')), '')
            res[c] = {'verdict': {0: 'SURVIVED', 1: 'killed', 2: 'inconclusive'}.get(rc, f'rc={rc}'), 'wall_s': round(time.time() - t0, 1),
                      'first_violation': first[:260]}
    finally:
        sh(['git', '-C', '/repo', 'checkout', '--', '.'])
        sh(['git', '-C', '/repo', 'clean', '-fdq'])
        sh(['git', 'checkout', '--', 'evidence'], cwd='/verif')
        subprocess.run(['rm', '-rf', '/verif/replay'])
    return res


def main():
    rows = []
    for p in sorted(glob.glob('/verif/mutants/*.patch')):
        name = os.path.basename(p)[:-6]
        rows.append({'id': name, 'kind': 'revert of a fix' if name.startswith('revert-') else 'hand-written mutant', 'patch': p, 'checks': targets(name)})
    for d in sorted(glob.glob('/verif/seeded/*/')):
        meta = json.load(open(d + 'meta.json'))
        if not meta.get('confirmation', {}).get('valid_seed'):
            continue
        own = meta['breaks_property']
        extra = [c for c in meta.get('checks_run', {}) if c != own and meta['checks_run'][c].get('verdict') == 'killed']
        rows.append({'id': meta['id'], 'kind': 'seeded by an independent sub-agent', 'patch': d + 'patch.diff', 'checks': [own] + extra,
                     'needs': meta.get('needs'), 'summary': meta.get('summary')})
    out = []
    only = [c for c in os.environ.get('KM_ONLY', '').split(',') if c]
    old = {}
    if only and os.path.exists('/verif/selftest/kill_matrix.json'):
        old = {r['id']: r for r in json.load(open('/verif/selftest/kill_matrix.json'))['rows']}
    for r in rows:
        if only:
            # partial re-run: only the listed checks, the other results are kept from the last full run
            prev = old.get(r['id'], {}).get('results', {})
            todo = [c for c in r['checks'] if c in only or c not in prev]
            r['results'] = dict(prev)
            if todo:
                r['results'].update(run_one(r['patch'], todo))
            r['results'] = {c: r['results'][c] for c in r['checks'] if c in r['results']}
            print(r['id'], {c: v['verdict'] for c, v in r['results'].items()}, '(re-run: %s)' % ','.join(todo), flush=True)
            out.append(r)
            json.dump({'tier': tier, 'rows': out}, open('/verif/selftest/kill_matrix.json.part', 'w'), indent=1)
            continue
        r['results'] = run_one(r['patch'], r['checks'])
        print(r['id'], {c: v['verdict'] for c, v in r['results'].items()}, flush=True)
        out.append(r)
        json.dump({'tier': tier, 'rows': out}, open('/verif/selftest/kill_matrix.json', 'w'), indent=1)
    if only:
        os.replace('/verif/selftest/kill_matrix.json.part', '/verif/selftest/kill_matrix.json')
    with open('/verif/selftest/kill_matrix.md', 'w') as f:
        f.write(f'# Kill matrix ({tier} tier)\n\n| change | kind | checks run -> verdict |\n|---|---|---|\n')
        for r in out:
            f.write('| %s | %s | %s |\n' % (r['id'], r['kind'], ', '.join(f"{c}: {v['verdict']}" for c, v in r['results'].items())))


if __name__ == '__main__':
    main()
