#!/usr/bin/env python3
"""Create behaviour-preserving control patches under /verif/controls (no check may flag them)."""
import subprocess, os
ENV = dict(os.environ, GOFLAGS='-mod=mod', GOPROXY='off', GOSUMDB='off', GOTOOLCHAIN='local')
def mk(name, edits):
    assert subprocess.run(['git','-C','/repo','status','--porcelain'],capture_output=True,text=True).stdout.strip()=='' , 'repo dirty'
    try:
        for f, old, new in edits:
            p='/repo/'+f; s=open(p).read(); assert s.count(old)==1,(name,f,s.count(old)); open(p,'w').write(s.replace(old,new))
        d=subprocess.run(['git','-C','/repo','diff'],capture_output=True,text=True).stdout
        t=subprocess.run(['go','test','-vet=off','-count=1','./...'],cwd='/repo',env=ENV,capture_output=True,text=True)
        open('/verif/controls/%s.patch'%name,'w').write(d)
        print(name, 'upstream', 'PASS' if t.returncode==0 else 'FAIL '+t.stdout[-300:])
    finally:
        subprocess.run(['git','-C','/repo','checkout','--','.'])

# 1. Reset clears ALL slots of the caller arrays instead of min(N+1, len)
mk('ctl-reset-clears-all-slots', [
 ('parse_contact.go', "	for i := 0; i <= c.N && i < len(c.Vals); i++ {\n		c.Vals[i].Reset()", "	for i := 0; i < len(c.Vals); i++ {\n		c.Vals[i].Reset()"),
 ('parse_uri_params.go', "	for i := 0; i <= l.N && i < len(l.Params); i++ {", "	for i := 0; i < len(l.Params); i++ {"),
])
# 2. header-name hash uses other bits, full compare kept
mk('ctl-other-hash-bits', [
 ('parse_headers.go', "	return (int(bytescase.ByteToLower(n[0])) & mC) |\n		((len(n) & mL) << hnBitsFChar)", "	return ((int(bytescase.ByteToLower(n[0])) >> 1) & mC) |\n		((len(n) & mL) << hnBitsFChar)"),
])
# 3. scratch header cleared eagerly (before use) instead of after use
mk('ctl-scratch-cleared-eagerly', [
 ('parse_headers.go', "		} else {\n			h = &hl.hdr\n		}\n		n, err := ParseHdrLine(buf, i, h, hb)", "		} else {\n			h = &hl.hdr\n			if h.state == 14 /* finished */ {\n				h.Reset()\n			}\n		}\n		n, err := ParseHdrLine(buf, i, h, hb)"),
])
# 4. skipWS / skipToken written differently
mk('ctl-skip-helpers-rewritten', [
 ('parse_utils.go', "func skipWS(buf []byte, offs int) int {\n	for ; offs < len(buf) && (buf[offs] == ' ' || buf[offs] == '\\t'); offs++ {\n		// empty\n	}\n	return offs\n}",
  "func skipWS(buf []byte, offs int) int {\n	for offs < len(buf) {\n		if c := buf[offs]; c != ' ' && c != '\\t' {\n			break\n		}\n		offs++\n	}\n	return offs\n}"),
])
# 5. IP4Prefix accumulates in an int and converts at the end of each group
mk('ctl-ip4-int-accumulator', [
 ('ip_prefix.go', "			if digits > 3 || (uint(ip[pos])*10+uint(buf[o]-'0') > 255) {", "			if v := int(ip[pos])*10 + int(buf[o]-'0'); digits > 3 || v > 255 {"),
])
# 6. first-of-type table filled only through SetHdr's copy, PFlags set before
mk('ctl-flags-after-sethdr', [
 ('parse_headers.go', "			hl.PFlags.Set(h.Type)\n			hl.SetHdr(h) // save \"shortcut\"", "			hl.SetHdr(h) // save \"shortcut\"\n			hl.PFlags.Set(h.Type)"),
])
# 7. URICmpShort compares host first (cheap reject), same conjunction
mk('ctl-cmp-order', [
 ('sipuri.go', "	return ((flags&URICmpSkipScheme) != 0 || (u1.URIType == u2.URIType)) &&", "	return bytescase.CmpEq(u1.Host.Get(buf1), u2.Host.Get(buf2)) &&\n		((flags&URICmpSkipScheme) != 0 || (u1.URIType == u2.URIType)) &&"),
])
# 8. an error offset of ParseCSeqVal changed consistently (end of number instead of start)
#    -- deliberately NOT a control: error offsets are part of "same verdict and offset"
