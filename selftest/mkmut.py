#!/usr/bin/env python3
"""mkmut.py <name> <file> <old> <new> [<file> <old> <new> ...]
Create /verif/mutants/<name>.patch from exact-string replacements in /repo (working tree is restored).
Verifies that the mutant builds and that the upstream tests still pass."""
import subprocess, sys, os
name = sys.argv[1]
trip = sys.argv[2:]
env = dict(os.environ, GOFLAGS='-mod=mod', GOPROXY='off', GOSUMDB='off', GOTOOLCHAIN='local')
assert subprocess.run(['git', '-C', '/repo', 'status', '--porcelain'], capture_output=True, text=True).stdout.strip() == '', '/repo not clean'
try:
    for i in range(0, len(trip), 3):
        f, old, new = trip[i:i+3]
        old = old.encode().decode('unicode_escape'); new = new.encode().decode('unicode_escape')
        p = '/repo/' + f
        s = open(p).read()
        assert s.count(old) == 1, (f, 'occurrences:', s.count(old))
        open(p, 'w').write(s.replace(old, new))
    d = subprocess.run(['git', '-C', '/repo', 'diff'], capture_output=True, text=True).stdout
    b = subprocess.run(['go', 'build', './...'], cwd='/repo', env=env, capture_output=True, text=True)
    if b.returncode != 0:
        print('BUILD FAILS', b.stderr); sys.exit(1)
    t = subprocess.run(['go', 'test', '-vet=off', '-count=1', './...'], cwd='/repo', env=env, capture_output=True, text=True)
    ok = t.returncode == 0
    open('/verif/mutants/%s.patch' % name, 'w').write(d)
    print(name, 'written; upstream tests', 'PASS' if ok else 'FAIL')
finally:
    subprocess.run(['git', '-C', '/repo', 'checkout', '--', '.'])
