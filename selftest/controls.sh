#!/bin/bash
# controls.sh: apply every control patch - behaviour-preserving (controls/*.patch) and
# property-conforming (controls/conforming/*.patch) - run ALL registered quick checks, undo.
# No check may raise an alarm. Output: selftest/controls_result.md
# usage: controls.sh            all controls, result file rewritten
#        controls.sh R2-A conforming/Q4-A   only those, results appended
# CTL_REPO=<side worktree of /repo at HEAD> applies the patches there and runs the checks with
# VERIF_REPO (so that /repo stays free for something else); default: /repo itself.
cd /verif
out=selftest/controls_result.md
R=${CTL_REPO:-/repo}
[ "$R" != /repo ] && export VERIF_REPO=$R
if [ $# -eq 0 ]; then
  echo "# Controls: every quick check on each behaviour-preserving / property-conforming change (none may alarm)" > $out
  set -- $(cd controls && ls *.patch conforming/*.patch | sed 's/\.patch$//')
fi
for name in "$@"; do
  p=/verif/controls/$name.patch
  [ -n "$(git -C $R status --porcelain)" ] && { echo "$R not clean"; exit 3; }
  git -C $R apply "$p" || { echo "- $name: patch does not apply" | tee -a $out; continue; }
  bad=""
  for id in $(python3 -c "import json;print(' '.join(c['property_id'] for c in json.load(open('MANIFEST.json'))['checks']))"); do
    ./check $id quick >/tmp/ctl.$$ 2>&1; rc=$?
    if [ $rc -ne 0 ]; then bad="$bad $id(rc=$rc: $(grep -m1 -E '^violation|INCONCLUSIVE' /tmp/ctl.$$ | cut -c1-160))"; fi
  done
  git -C $R checkout -- . ; git -C $R clean -fdq
  [ "$R" = /repo ] && git checkout -- evidence
  rm -rf /tmp/ctl.$$
  echo "- $name: ${bad:-all 20 checks held}" | tee -a $out
done
