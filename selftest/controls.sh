#!/bin/bash
# controls.sh: apply every behaviour-preserving control patch (controls/*.patch) to /repo, run ALL
# registered quick checks, undo. No check may raise an alarm. Output: selftest/controls_result.md
cd /verif
out=selftest/controls_result.md
# usage: controls.sh            all controls, result file rewritten
#        controls.sh R2-A R6-C  only those, results appended
if [ $# -eq 0 ]; then
  echo "# Behaviour-preserving controls: every quick check on each (none may alarm)" > $out
  set -- $(cd controls && ls *.patch conforming/*.patch | sed 's/\.patch$//')
fi
for name in "$@"; do
  p=/verif/controls/$name.patch
  [ -n "$(git -C /repo status --porcelain)" ] && { echo "/repo not clean"; exit 3; }
  git -C /repo apply "$p" || { echo "$p does not apply" >> $out; continue; }
  bad=""
  for id in $(python3 -c "import json;print(' '.join(c['property_id'] for c in json.load(open('MANIFEST.json'))['checks']))"); do
    ./check $id quick >/tmp/ctl.$$ 2>&1; rc=$?
    if [ $rc -ne 0 ]; then bad="$bad $id(rc=$rc: $(grep -m1 -E '^violation|INCONCLUSIVE' /tmp/ctl.$$ | cut -c1-160))"; fi
  done
  git -C /repo checkout -- . ; git -C /repo clean -fdq
  git checkout -- evidence; rm -rf replay /tmp/ctl.$$
  echo "- $name: ${bad:-all 20 checks held}" | tee -a $out
done
