package gen

import (
	"go/ast"
	"go/parser"
	"go/token"
	"path/filepath"
	"sort"
	"strconv"
	"sync"
)

// RepoDir is where the repository under test lives.
var RepoDir = "/repo"

var (
	corpusOnce sync.Once
	corpusMsgs [][]byte
	corpusVals [][]byte
)

func constStr(e ast.Expr) (string, bool) {
	switch x := e.(type) {
	case *ast.BasicLit:
		if x.Kind == token.STRING {
			s, err := strconv.Unquote(x.Value)
			return s, err == nil
		}
	case *ast.BinaryExpr:
		if x.Op == token.ADD {
			a, ok1 := constStr(x.X)
			b, ok2 := constStr(x.Y)
			return a + b, ok1 && ok2
		}
	case *ast.ParenExpr:
		return constStr(x.X)
	}
	return "", false
}

func loadRepoCorpus() {
	files, _ := filepath.Glob(filepath.Join(RepoDir, "*_test.go"))
	sort.Strings(files)
	seen := map[string]bool{}
	fset := token.NewFileSet()
	for _, f := range files {
		af, err := parser.ParseFile(fset, f, nil, 0)
		if err != nil {
			continue
		}
		ast.Inspect(af, func(n ast.Node) bool {
			e, ok := n.(ast.Expr)
			if !ok {
				return true
			}
			s, ok := constStr(e)
			if !ok {
				return true
			}
			if len(s) >= 4 && len(s) < 4000 && !seen[s] {
				seen[s] = true
				if len(s) > 60 && (containsStr(s, "SIP/2.0")) {
					corpusMsgs = append(corpusMsgs, []byte(s))
				} else {
					corpusVals = append(corpusVals, []byte(s))
				}
			}
			return false // do not descend into a constant expression
		})
	}
}

func containsStr(s, sub string) bool {
	for i := 0; i+len(sub) <= len(s); i++ {
		if s[i:i+len(sub)] == sub {
			return true
		}
	}
	return false
}

// RepoCorpus returns message-like string constants of the repository's tests.
func RepoCorpus() [][]byte {
	corpusOnce.Do(loadRepoCorpus)
	return corpusMsgs
}

// RepoValues returns the shorter string constants (header values, URIs ...).
func RepoValues() [][]byte {
	corpusOnce.Do(loadRepoCorpus)
	return corpusVals
}
