package gen

import (
	"github.com/intuitivelabs/sipsp"

	"verif/harness/core"
)

// Terminators of a generated parameter list.
const (
	TermEOH   = iota // CRLF followed by a non-space byte
	TermChar         // the configured ',' or '?'
	TermSpTok        // whitespace followed by a token (POptTokSpTermF)
	TermInput        // end of the buffer (POptInputEndF)
)

// PLItem is one generated parameter with the expected fields.
type PLItem struct {
	Name, Val string
	HasEq     bool
	Quoted    bool
	NameSp    Span
	ValSp     Span // position of the value (zero length for an empty value); meaningless without HasEq
}

// PList is a generated parameter list.
type PList struct {
	Raw      []byte
	Start    int // offset of the list text
	Items    []PLItem
	Flags    sipsp.POptFlags
	Sep      byte
	TermByte byte // for TermChar
	Term     int
	TermOffs int // TermChar: offset of the terminator; TermSpTok: [WsS,WsE) below; TermEOH: first byte after the line end; TermInput: len
	WsS, WsE int // TermSpTok: whitespace run between the last item and the token
	TrailSep bool
}

// PLOpts steers the list generator.
type PLOpts struct {
	Flags     sipsp.POptFlags
	Term      int
	MaxItems  int
	AllowZero bool
	Plain     bool
}

// SepTerm mirrors the documented meaning of the option flags.
func SepTerm(flags sipsp.POptFlags) (sep, term byte) {
	sep = ';'
	if flags&(sipsp.POptParamAmpSepF|sipsp.POptTokURIHdrF) != 0 {
		sep = '&'
	}
	if flags&(sipsp.POptTokQmTermF|sipsp.POptTokURIParamF) != 0 {
		term = '?'
	} else if flags&sipsp.POptTokCommaTermF != 0 {
		term = ','
	}
	return
}

// PLOptsFor picks a terminator that the flag set supports.
func PLOptsFor(flags sipsp.POptFlags, r *core.Rand) PLOpts {
	_, term := SepTerm(flags)
	choices := []int{TermEOH}
	if term != 0 {
		choices = append(choices, TermChar, TermChar)
	}
	if flags&sipsp.POptTokSpTermF != 0 {
		choices = append(choices, TermSpTok, TermSpTok)
	}
	if flags&sipsp.POptInputEndF != 0 {
		choices = append(choices, TermInput, TermInput)
	}
	return PLOpts{Flags: flags, Term: choices[r.Intn(len(choices))], MaxItems: 6, AllowZero: true}
}

const plBase = "abcdefghijklmnopqrstuvwxyzABCDEFGHIJKLMNOPQRSTUVWXYZ0123456789-_.!~*'()%[]/:+$"

// AllowedTokChars returns the documented name/value character set for a flag set,
// minus the separator and terminator in force.
func AllowedTokChars(flags sipsp.POptFlags) string {
	sep, term := SepTerm(flags)
	s := plBase
	extra := byte('?')
	if flags&sipsp.POptTokURIParamF != 0 {
		extra = '&'
	}
	if extra != sep && extra != term {
		s += string(extra)
	}
	return s
}

var knownURIParams = []string{"transport", "user", "method", "ttl", "maddr", "lr"}

// ParamList generates one list.
func ParamList(r *core.Rand, o PLOpts) *PList {
	b := &bld{r: r, plain: o.Plain}
	pl := &PList{Flags: o.Flags, Term: o.Term}
	pl.Sep, pl.TermByte = SepTerm(o.Flags)
	chars := AllowedTokChars(o.Flags)
	b.ows()
	pl.Start = 0
	n := r.Range(1, max(1, o.MaxItems))
	manyKnown := false
	if o.MaxItems >= 6 && r.Intn(12) == 0 {
		// long list that names every known URI parameter and then repeats some
		n = r.Range(7, 24)
		manyKnown = true
	}
	if o.AllowZero && (o.Term == TermEOH || o.Term == TermInput) && r.Intn(25) == 0 {
		n = 0
	}
	for i := 0; i < n; i++ {
		if i > 0 {
			b.ows()
			b.c(pl.Sep)
			if r.Intn(12) == 0 { // empty list item
				b.ows()
				b.c(pl.Sep)
			}
			b.ows()
		} else if r.Intn(20) == 0 { // leading empty item
			b.c(pl.Sep)
			b.ows()
		}
		var it PLItem
		if manyKnown && i < len(knownURIParams) {
			it.Name = RandCase(r, knownURIParams[i])
		} else if r.Intn(3) == 0 || (manyKnown && r.Intn(2) == 0) {
			it.Name = RandCase(r, knownURIParams[r.Intn(len(knownURIParams))])
		} else if r.Intn(6) == 0 {
			// near misses of the known names: a known name stretched or cut by a few bytes
			k := knownURIParams[r.Intn(len(knownURIParams))]
			switch r.Intn(4) {
			case 0:
				it.Name = k + b.token(1, 6, "sx1-.")
			case 1:
				it.Name = k + "-" + b.token(1, 12, "proxyabc")
			case 2:
				if len(k) > 1 {
					it.Name = k[:len(k)-1]
				} else {
					it.Name = k + k
				}
			default:
				it.Name = b.token(1, 2, "xu-") + k
			}
			it.Name = RandCase(r, it.Name)
		} else {
			it.Name = b.token(1, 8, chars)
		}
		it.NameSp = Span{b.pos(), b.pos() + len(it.Name)}
		b.s(it.Name)
		last := i == n-1
		if r.Intn(100) < 75 {
			it.HasEq = true
			b.ows()
			b.c('=')
			kind := r.Intn(100)
			emptyOK := !(last && o.Term == TermSpTok)
			switch {
			case kind < 8 && emptyOK:
				// empty value: no whitespace is attributed to it
				it.ValSp = Span{-1, -1}
			case kind < 30:
				b.ows()
				it.Quoted = true
				q := []byte{'"'}
				m := r.Range(0, 10)
				for j := 0; j < m; j++ {
					switch x := r.Intn(30); {
					case x == 0:
						q = append(q, '\\', '"')
					case x == 1:
						q = append(q, '\\', '\\')
					case x == 2:
						q = append(q, '\\', []byte{'x', 0x01, 0x7f, 0x1f, 0x0b, ';', ',', ' ', '\t', 0x80}[r.Intn(10)])
					case x < 6:
						q = append(q, ' ')
					case x == 6:
						q = append(q, '\t')
					case x == 7:
						q = append(q, pl.Sep)
					case x == 8:
						q = append(q, ',', '?')
					case x == 9:
						q = append(q, '=', '@', '<')
					case x == 10:
						q = append(q, 0x80+byte(r.Intn(128)))
					default:
						q = append(q, alnum[r.Intn(len(alnum))])
					}
				}
				q = append(q, '"')
				it.Val = string(q)
				it.ValSp = Span{b.pos(), b.pos() + len(q)}
				b.by(q)
			default:
				b.ows()
				it.Val = b.token(1, 10, chars)
				it.ValSp = Span{b.pos(), b.pos() + len(it.Val)}
				b.s(it.Val)
			}
		}
		pl.Items = append(pl.Items, it)
	}
	// optional trailing separator (an empty last item)
	if n > 0 && o.Term != TermSpTok && r.Intn(12) == 0 {
		b.ows()
		b.c(pl.Sep)
		pl.TrailSep = true
	}
	switch o.Term {
	case TermEOH:
		b.ows()
		b.eol(true)
		pl.TermOffs = b.pos()
		b.s([]string{"X", "Next: 1\r\n", ":"}[r.Intn(3)])
	case TermChar:
		b.ows()
		pl.TermOffs = b.pos()
		b.c(pl.TermByte)
		b.s([]string{"", "rest", " x=1", "\r\n"}[r.Intn(4)])
	case TermSpTok:
		pl.WsS = b.pos()
		b.rws()
		pl.WsE = b.pos()
		b.s(b.token(1, 6, alnum))
		b.s([]string{"", ";x", "\r\nX"}[r.Intn(3)])
	case TermInput:
		if r.Intn(3) == 0 {
			b.hws()
		}
		pl.TermOffs = b.pos()
	}
	pl.Raw = b.b
	return pl
}
