package gen

import (
	"math/big"
	"strings"

	"verif/harness/core"
)

// Hostile is the alphabet of bytes the automata branch on.
var Hostile = []byte("a1 \t\r\n;=,<>\"\\*:@?&[].-/%SIP2.0fmtilv")

// Fragments are protocol fragments mixed into byte soup.
var Fragments = []string{"SIP/2.0 ", "SIP/2.0", "INVITE ", "From:", "f:", "To:", "Contact:", "m:", "CSeq:", "Call-ID:", "i:",
	"Content-Length:", "l:", "Expires:", "P-Asserted-Identity:", "Via:", ";tag=", ";expires=", ";q=", ";lr", "sip:", "sips:", "tel:",
	"\r\n", "\r\n\r\n", "\r\n ", "<sip:a@b>", "\"x\"", "*", "200 OK", " 1 INVITE", "\r", "\n", ";branch=z9hG4bK", "1.2.3.4", "::1"}

// Bytes is G-bytes: raw byte soup of length 0..maxLen.
func Bytes(r *core.Rand, maxLen int) []byte {
	n := r.Intn(maxLen + 1)
	out := make([]byte, 0, n+16)
	mode := r.Intn(4)
	for len(out) < n {
		switch mode {
		case 0:
			out = append(out, byte(r.U64()))
		case 1:
			out = append(out, Hostile[r.Intn(len(Hostile))])
		default:
			switch r.Intn(5) {
			case 0:
				out = append(out, Fragments[r.Intn(len(Fragments))]...)
			case 1:
				out = append(out, byte(r.U64()))
			default:
				out = append(out, Hostile[r.Intn(len(Hostile))])
			}
		}
	}
	return out
}

// Corpus is the built-in seed corpus of messages (G-mut).
var Corpus = []string{
	"INVITE sip:bob@biloxi.com SIP/2.0\r\nVia: SIP/2.0/UDP pc33.atlanta.com;branch=z9hG4bK776asdhds\r\nMax-Forwards: 70\r\nTo: Bob <sip:bob@biloxi.com>\r\nFrom: Alice <sip:alice@atlanta.com>;tag=1928301774\r\nCall-ID: a84b4c76e66710@pc33.atlanta.com\r\nCSeq: 314159 INVITE\r\nContact: <sip:alice@pc33.atlanta.com>\r\nContent-Type: application/sdp\r\nContent-Length: 4\r\n\r\nabcd",
	"SIP/2.0 200 OK\r\nVia: SIP/2.0/UDP server10.biloxi.com;branch=z9hG4bKnashds8;received=192.0.2.3\r\nTo: Bob <sip:bob@biloxi.com>;tag=a6c85cf\r\nFrom: Alice <sip:alice@atlanta.com>;tag=1928301774\r\nCall-ID: a84b4c76e66710@pc33.atlanta.com\r\nCSeq: 314159 INVITE\r\nContact: <sip:bob@192.0.2.4>\r\nContent-Length: 0\r\n\r\n",
	"REGISTER sip:registrar.biloxi.com SIP/2.0\r\nv: SIP/2.0/UDP bobspc.biloxi.com:5060;branch=z9hG4bKnashds7\r\nMax-Forwards: 70\r\nt: Bob <sip:bob@biloxi.com>\r\nf: Bob <sip:bob@biloxi.com>;tag=456248\r\ni: 843817637684230@998sdasdh09\r\nCSeq: 1826 REGISTER\r\nm: <sip:bob@192.0.2.4>;expires=3600;q=0.7, \"Bob2\" <sip:bob2@192.0.2.5>;q=0.1 ,sip:x@y;expires=10\r\nExpires: 7200\r\nl: 0\r\n\r\n",
	"OPTIONS sip:carol@chicago.com SIP/2.0\nVia: SIP/2.0/UDP pc33.atlanta.com;branch=z9hG4bKhjhs8ass877\nMax-Forwards: 70\nTo: <sip:carol@chicago.com>\nFrom: Alice <sip:alice@atlanta.com>;tag=1928301774\nCall-ID: a84b4c76e66710\nCSeq: 63104 OPTIONS\nContact: *\nAccept: application/sdp\nContent-Length: 0\n\n",
	"INVITE sip:a@b SIP/2.0\r\nFrom:\r\n \"A. B\" \r\n <sip:a@b> ;\r\n tag = x1\r\nTo: sip:b@c ; tag=9\r\nCall-ID:\tzz@1.2.3.4\r\nCSeq: 1\r\n INVITE\r\nP-Asserted-Identity: \"x\" <sip:p@q>, <tel:+123>\r\nP-Asserted-Identity: <sip:r@s>\r\nContact: <sip:1@2>;expires=5\r\nContact: <sip:3@4>;expires=500, <sip:5@6>\r\nRoute: <sip:p1;lr>, <sip:p2;lr>\r\nRecord-Route: <sip:p3;lr>\r\nUser-Agent: x y z\r\nContent-Length: 3\r\n\r\nxyzEXTRA",
	"SIP/2.0 404 \r\nf: <sip:a@b>;tag=1\r\nt: <sip:c@d>\r\ni: 1\r\nCSeq: 4294967295 BYE\r\n\r\n",
	"BYE sip:x SIP/2.0\rFrom: <sip:a>;tag=1\rTo: <sip:b>\rCall-ID: c\rCSeq: 2 BYE\rContent-Length: 0\r\r\n",
	"MESSAGE sip:u@h SIP/2.0\r\nFrom: \"quoted \\\" name\" <sip:a@b>;tag=88;x=\"q;v,\\\\\"\r\nTo: T <sip:t@u>\r\nCall-ID: 0123456789abcdef0123456789abcdef@10.0.0.1\r\nCSeq: 10 MESSAGE\r\nExpires: 0\r\nContent-Length: 000005\r\n\r\nhello",
}

// hostileEdit is the alphabet for mutations.
var hostileEdit = []byte(" \t\r\n;=,<>\"\\*:@?&0159aZ\x00\x7f\xff")

// Mutate applies 1..k edits to src.
func Mutate(r *core.Rand, src []byte, k int) []byte {
	out := append([]byte(nil), src...)
	n := r.Range(1, k)
	for e := 0; e < n; e++ {
		if len(out) == 0 {
			out = append(out, hostileEdit[r.Intn(len(hostileEdit))])
			continue
		}
		p := r.Intn(len(out))
		switch r.Intn(5) {
		case 0: // substitute
			out[p] = hostileEdit[r.Intn(len(hostileEdit))]
		case 1: // insert
			out = append(out[:p], append([]byte{hostileEdit[r.Intn(len(hostileEdit))]}, out[p:]...)...)
		case 2: // delete
			out = append(out[:p], out[p+1:]...)
		case 3: // duplicate span
			l := r.Range(1, 12)
			if p+l > len(out) {
				l = len(out) - p
			}
			sp := append([]byte(nil), out[p:p+l]...)
			out = append(out[:p], append(sp, out[p:]...)...)
		case 4: // delete span
			l := r.Range(1, 12)
			if p+l > len(out) {
				l = len(out) - p
			}
			out = append(out[:p], out[p+l:]...)
		}
	}
	return out
}

// NumStrings is G-num: digit strings around every interesting boundary, with
// leading zeros, all-nines, plus k random ones derived from the seed.
func NumStrings(r *core.Rand, nRandom int) []string {
	seen := map[string]bool{}
	var out []string
	add := func(s string) {
		if s != "" && len(s) <= 40 && !seen[s] {
			seen[s] = true
			out = append(out, s)
		}
	}
	pow := func(b, e int64) *big.Int { return new(big.Int).Exp(big.NewInt(b), big.NewInt(e), nil) }
	bases := []*big.Int{pow(2, 8), pow(2, 16), pow(2, 24), pow(2, 31), pow(2, 32), pow(10, 9), pow(10, 10), pow(2, 63), pow(2, 64),
		big.NewInt(65535 * 10), big.NewInt(1000), big.NewInt(256), big.NewInt(999), pow(10, 20), pow(10, 19), pow(2, 64+3)}
	for k := int64(2); k <= 12; k++ {
		bases = append(bases, new(big.Int).Mul(pow(2, 32), big.NewInt(k)))
		bases = append(bases, new(big.Int).Mul(pow(2, 64), big.NewInt(k)))
		bases = append(bases, new(big.Int).Mul(pow(2, 16), big.NewInt(k)))
	}
	zeros := []int{0, 1, 2, 5, 11, 25}
	for _, b := range bases {
		for d := int64(-3); d <= 3; d++ {
			v := new(big.Int).Add(b, big.NewInt(d))
			if v.Sign() < 0 {
				continue
			}
			s := v.String()
			for _, z := range zeros {
				add(strings.Repeat("0", z) + s)
			}
		}
	}
	for l := 1; l <= 40; l++ {
		add(strings.Repeat("9", l))
		add(strings.Repeat("0", l))
		add("1" + strings.Repeat("0", l-1))
		add(strings.Repeat("0", l-1) + "1")
	}
	for i := 0; i <= 300; i++ {
		add(big.NewInt(int64(i)).String())
	}
	// wrap residues: k*2^32 + small, k*2^64 + small (what a wrapped accumulator would accept)
	for k := int64(1); k <= 9; k++ {
		for _, small := range []int64{0, 1, 5, 80, 5060, 65535, 3600} {
			add(new(big.Int).Add(new(big.Int).Mul(pow(2, 32), big.NewInt(k)), big.NewInt(small)).String())
			add(new(big.Int).Add(new(big.Int).Mul(pow(2, 64), big.NewInt(k)), big.NewInt(small)).String())
			add(new(big.Int).Add(new(big.Int).Mul(pow(2, 16), big.NewInt(k)), big.NewInt(small)).String())
		}
	}
	for i := 0; i < nRandom; i++ {
		l := r.Range(1, 40)
		b := make([]byte, l)
		for j := range b {
			b[j] = byte('0' + r.Intn(10))
		}
		if r.Intn(3) == 0 {
			z := r.Intn(l)
			for j := 0; j < z; j++ {
				b[j] = '0'
			}
		}
		add(string(b))
	}
	return out
}

// URIParts is a component-wise URI (G-uri).
type URIParts struct {
	Scheme string // "sip", "sips" (as written, any case)
	User   string
	Pass   string
	Host   string
	Port   string
	Params []KV // in order
	Hdrs   []KV
}

// KV is a name/value pair; HasVal false means no '=' at all.
type KV struct {
	K, V   string
	HasVal bool
}

// String renders the URI.
func (u *URIParts) String() string {
	var sb strings.Builder
	sb.WriteString(u.Scheme)
	sb.WriteByte(':')
	if u.User != "" {
		sb.WriteString(u.User)
		if u.Pass != "" {
			sb.WriteByte(':')
			sb.WriteString(u.Pass)
		}
		sb.WriteByte('@')
	}
	sb.WriteString(u.Host)
	if u.Port != "" {
		sb.WriteByte(':')
		sb.WriteString(u.Port)
	}
	for _, p := range u.Params {
		sb.WriteByte(';')
		sb.WriteString(p.K)
		if p.HasVal {
			sb.WriteByte('=')
			sb.WriteString(p.V)
		}
	}
	for i, h := range u.Hdrs {
		if i == 0 {
			sb.WriteByte('?')
		} else {
			sb.WriteByte('&')
		}
		sb.WriteString(h.K)
		if h.HasVal {
			sb.WriteByte('=')
			sb.WriteString(h.V)
		}
	}
	return sb.String()
}

// Clone deep-copies the parts.
func (u *URIParts) Clone() *URIParts {
	c := *u
	c.Params = append([]KV(nil), u.Params...)
	c.Hdrs = append([]KV(nil), u.Hdrs...)
	return &c
}

var (
	uUsers  = []string{"", "alice", "Bob", "a.b-c_d", "+4930123", "u%40x", "user;x=1", "0", "A", "x!~*'()", "bob;ttl=1?x", "u;method=m?h=1", "z?q;user=phone", "w;maddr=q"}
	uPass   = []string{"", "secret", "P4ss", "1234x", "a&b"}
	uHosts  = []string{"example.com", "h", "192.0.2.4", "[2001:db8::1]", "A.B.c", "gw-1.example.net", "[::1]", "x.y"}
	uPorts  = []string{"", "5060", "5061", "1", "65535", "0", "05060"}
	uPNames = []string{"transport", "user", "method", "ttl", "maddr", "lr", "x", "foo", "p-1", "Bar", "c%20", "z.z",
		"n" + strings.Repeat("a", 30), "L" + strings.Repeat("ong-name.", 7), "m" + strings.Repeat("Xy", 64), "k" + strings.Repeat("z", 255), "transport-proto", "users", "lrx", "ttl1", "maddress", "methods"}
	uPVals  = []string{"tcp", "udp", "phone", "INVITE", "1", "224.2.0.1", "on", "v", "V2", "a:b", "[1]", "x+y", "%41", "\"aBc\"", "\"Q.r:s\"", strings.Repeat("vW", 40)}
	uHNames = []string{"subject", "to", "priority", "h1", "X-h", "Body", "route", "t", "f", "from", "i", "call-id", "m", "contact", "l", "content-length", "v", "via",
		"H" + strings.Repeat("e", 31), "H" + strings.Repeat("d", 62), "H" + strings.Repeat("r", 63), "H" + strings.Repeat("s", 64), "Very-" + strings.Repeat("Long-", 26), "w" + strings.Repeat("Q", 300)}
	uHVals = []string{"project", "bob%40b.com", "urgent", "1", "v", "A", "x:y", "[z]"}
)

// URI generates component-wise URIs with duplicate-free parameter / header names.
func URI(r *core.Rand) *URIParts {
	u := &URIParts{Scheme: RandCase(r, []string{"sip", "sips"}[r.Intn(2)])}
	u.User = uUsers[r.Intn(len(uUsers))]
	if u.User != "" && r.Intn(3) == 0 {
		u.Pass = uPass[r.Intn(len(uPass))]
	}
	u.Host = uHosts[r.Intn(len(uHosts))]
	u.Port = uPorts[r.Intn(len(uPorts))]
	np := []int{0, 0, 1, 1, 2, 3, 5}[r.Intn(7)]
	used := map[string]bool{}
	for i := 0; i < np; i++ {
		k := uPNames[r.Intn(len(uPNames))]
		lk := strings.ToLower(k)
		if used[lk] {
			continue
		}
		used[lk] = true
		kv := KV{K: RandCase(r, k)}
		if lk != "lr" || r.Intn(4) == 0 {
			kv.HasVal = true
			kv.V = uPVals[r.Intn(len(uPVals))]
		}
		u.Params = append(u.Params, kv)
	}
	nh := []int{0, 0, 0, 1, 2, 3}[r.Intn(6)]
	usedh := map[string]bool{}
	for i := 0; i < nh; i++ {
		k := uHNames[r.Intn(len(uHNames))]
		lk := strings.ToLower(k)
		if usedh[lk] {
			continue
		}
		usedh[lk] = true
		kv := KV{K: RandCase(r, k), HasVal: true, V: uHVals[r.Intn(len(uHVals))]}
		if r.Intn(8) == 0 {
			kv.HasVal = false
			kv.V = ""
		}
		u.Hdrs = append(u.Hdrs, kv)
	}
	return u
}
