package ref

// IP4EndsAt returns every end offset e such that s[i:e] matches
// d{1,3}(.d{1,3}){3} with every group <= 255 (backtracking reference matcher).
func IP4EndsAt(s []byte, i int) []int {
	var ends []int
	var rec func(pos, group int)
	rec = func(pos, group int) {
		// try 1..3 digits
		v := 0
		for n := 1; n <= 3; n++ {
			p := pos + n - 1
			if p >= len(s) || s[p] < '0' || s[p] > '9' {
				return
			}
			v = v*10 + int(s[p]-'0')
			if v > 255 {
				return
			}
			end := pos + n
			if group == 3 {
				ends = append(ends, end)
				continue
			}
			if end < len(s) && s[end] == '.' {
				rec(end+1, group+1)
			}
		}
	}
	rec(i, 0)
	return ends
}

// IP4Groups decodes the four groups of a full match s (exactly 3 dots).
func IP4Groups(s []byte) (g [4]byte, ok bool) {
	k, v, nd := 0, 0, 0
	for _, c := range s {
		switch {
		case c >= '0' && c <= '9':
			v = v*10 + int(c-'0')
			nd++
			if nd > 3 || v > 255 {
				return g, false
			}
		case c == '.':
			if nd == 0 || k >= 3 {
				return g, false
			}
			g[k] = byte(v)
			k++
			v, nd = 0, 0
		default:
			return g, false
		}
	}
	if k != 3 || nd == 0 {
		return g, false
	}
	g[3] = byte(v)
	return g, true
}

// ContainsIP4 tells whether any substring matches.
func ContainsIP4(s []byte) bool {
	for i := range s {
		if len(IP4EndsAt(s, i)) > 0 {
			return true
		}
	}
	return false
}
