package ref

// FLine is the reference decomposition of a first line.
type FLine struct {
	Kind                 int // 0 rejected, 1 request, 2 reply, -1 no line end in the text
	Method, URI, Version []byte
	Code, Reason         []byte
	End                  int // first byte after the line terminator
}

func isWS(c byte) bool { return c == ' ' || c == '\t' || c == '\r' || c == '\n' }

// FirstLine applies the grammar of the statement to a text that contains a
// complete first line: 'method SP uri SP version EOL' (tokens = bytes other
// than SP HT CR LF) or 'SIP/2.0 SP ddd SP reason EOL' (version in any case).
func FirstLine(b []byte) FLine {
	le := 0
	for le < len(b) && b[le] != '\r' && b[le] != '\n' {
		le++
	}
	if le >= len(b) {
		return FLine{Kind: -1}
	}
	end := le + 1
	if b[le] == '\r' && le+1 < len(b) && b[le+1] == '\n' {
		end = le + 2
	}
	if len(b) >= 8 && Lower(b[:8]) == "sip/2.0 " {
		// status line
		if len(b) < 12 || b[11] != ' ' {
			return FLine{}
		}
		for _, c := range b[8:11] {
			if c < '0' || c > '9' {
				return FLine{}
			}
		}
		if le < 12 {
			return FLine{}
		}
		return FLine{Kind: 2, Version: b[:7], Code: b[8:11], Reason: b[12:le], End: end}
	}
	tok := func(i int) int {
		for i < len(b) && !isWS(b[i]) {
			i++
		}
		return i
	}
	m := tok(0)
	if m == 0 || m >= len(b) || b[m] != ' ' {
		return FLine{}
	}
	u := tok(m + 1)
	if u == m+1 || u >= len(b) || b[u] != ' ' {
		return FLine{}
	}
	v := tok(u + 1)
	if v == u+1 || v != le {
		return FLine{}
	}
	return FLine{Kind: 1, Method: b[:m], URI: b[m+1 : u], Version: b[u+1 : v], End: end}
}
