package ref

import "bytes"

// URISplit is the reference decomposition of the text after the scheme of a
// sip:/sips: URI (generic grammar, no validation):
//
//	[user[:pass]@] host [:port] [;params] [?headers]
//
// ';' and '?' before an '@' belong to the user part; a host starting with '['
// runs through the first ']'. Has* tell whether the delimiter introducing the
// component is present (the component may then be empty).
type URISplit struct {
	User, Pass, Host, Port, Params, Headers                         []byte
	HasUser, HasPass, HasPort, HasParams, HasHeaders                bool
	UserOffs, PassOffs, HostOffs, PortOffs, ParamsOffs, HeadersOffs int
}

// SplitURI splits rest (text after "scheme:"), base is the offset of rest in
// the whole URI.
func SplitURI(rest []byte, base int) URISplit {
	var s URISplit
	hp := rest
	hpOff := base
	if at := bytes.IndexByte(rest, '@'); at >= 0 {
		ui := rest[:at]
		s.HasUser = true
		s.UserOffs = base
		if c := bytes.IndexByte(ui, ':'); c >= 0 {
			s.User = ui[:c]
			s.HasPass = true
			s.Pass = ui[c+1:]
			s.PassOffs = base + c + 1
		} else {
			s.User = ui
		}
		hp = rest[at+1:]
		hpOff = base + at + 1
	}
	s.HostOffs = hpOff
	i := 0
	if len(hp) > 0 && hp[0] == '[' {
		if e := bytes.IndexByte(hp, ']'); e >= 0 {
			i = e + 1
		} else {
			i = len(hp)
		}
	} else {
		for i < len(hp) && hp[i] != ':' && hp[i] != ';' && hp[i] != '?' {
			i++
		}
	}
	s.Host = hp[:i]
	if i < len(hp) && hp[i] == ':' {
		s.HasPort = true
		j := i + 1
		for j < len(hp) && hp[j] != ';' && hp[j] != '?' {
			j++
		}
		s.Port = hp[i+1 : j]
		s.PortOffs = hpOff + i + 1
		i = j
	}
	if i < len(hp) && hp[i] == ';' {
		s.HasParams = true
		j := i + 1
		for j < len(hp) && hp[j] != '?' {
			j++
		}
		s.Params = hp[i+1 : j]
		s.ParamsOffs = hpOff + i + 1
		i = j
	}
	if i < len(hp) && hp[i] == '?' {
		s.HasHeaders = true
		s.Headers = hp[i+1:]
		s.HeadersOffs = hpOff + i + 1
		i = len(hp)
	}
	return s
}
