// Package ref holds the small independent reference oracles: classification
// tables, big-number values, an IPv4 matcher, URI re-assembly helpers.
// Nothing here calls into sipsp.
package ref

// Header type numbers (mirror the documented HdrT constants; checked against
// the library's constants by the self test).
const (
	HdrNone = iota
	HdrFrom
	HdrTo
	HdrCallID
	HdrCSeq
	HdrVia
	HdrMaxFwd
	HdrCLen
	HdrContact
	HdrExpires
	HdrUA
	HdrRecordRoute
	HdrRoute
	HdrPAI
	HdrOther
)

// HdrNames is the reference table: lower-case name -> type.
var HdrNames = map[string]int{
	"from": HdrFrom, "f": HdrFrom,
	"to": HdrTo, "t": HdrTo,
	"call-id": HdrCallID, "i": HdrCallID,
	"cseq": HdrCSeq,
	"via":  HdrVia, "v": HdrVia,
	"max-forwards":   HdrMaxFwd,
	"content-length": HdrCLen, "l": HdrCLen,
	"contact": HdrContact, "m": HdrContact,
	"expires":             HdrExpires,
	"user-agent":          HdrUA,
	"record-route":        HdrRecordRoute,
	"route":               HdrRoute,
	"p-asserted-identity": HdrPAI,
}

// HdrNameList lists the table names in a fixed order.
var HdrNameList = []string{"from", "f", "to", "t", "call-id", "i", "cseq", "via", "v", "max-forwards",
	"content-length", "l", "contact", "m", "expires", "user-agent", "record-route", "route", "p-asserted-identity"}

// Lower is an ASCII-only lower-casing written here (not bytescase).
func Lower(b []byte) string {
	o := make([]byte, len(b))
	for i, c := range b {
		if c >= 'A' && c <= 'Z' {
			c += 'a' - 'A'
		}
		o[i] = c
	}
	return string(o)
}

// HdrType is the reference classification of a header name.
func HdrType(name []byte) int {
	if t, ok := HdrNames[Lower(name)]; ok {
		return t
	}
	return HdrOther
}

// Method numbers (mirror SIPMethod).
const (
	MUndef = iota
	MRegister
	MInvite
	MAck
	MBye
	MPrack
	MCancel
	MOptions
	MSubscribe
	MNotify
	MUpdate
	MInfo
	MRefer
	MPublish
	MMessage
	MOther
)

// Methods is the reference table: exact upper-case name -> number.
var Methods = map[string]int{
	"REGISTER": MRegister, "INVITE": MInvite, "ACK": MAck, "BYE": MBye, "PRACK": MPrack,
	"CANCEL": MCancel, "OPTIONS": MOptions, "SUBSCRIBE": MSubscribe, "NOTIFY": MNotify,
	"UPDATE": MUpdate, "INFO": MInfo, "REFER": MRefer, "PUBLISH": MPublish, "MESSAGE": MMessage,
}

// MethodList lists the method names in number order (index = number-1).
var MethodList = []string{"REGISTER", "INVITE", "ACK", "BYE", "PRACK", "CANCEL", "OPTIONS",
	"SUBSCRIBE", "NOTIFY", "UPDATE", "INFO", "REFER", "PUBLISH", "MESSAGE"}

// MethodNo is the reference classification of a method name.
func MethodNo(name []byte) int {
	if m, ok := Methods[string(name)]; ok {
		return m
	}
	return MOther
}

// IsLWSByte tells SP / HT / CR / LF.
func IsLWSByte(c byte) bool { return c == ' ' || c == '\t' || c == '\r' || c == '\n' }

// TrimLWS trims SP/HT/CR/LF on both sides and returns the start and end.
func TrimLWS(b []byte, s, e int) (int, int) {
	for s < e && IsLWSByte(b[s]) {
		s++
	}
	for e > s && IsLWSByte(b[e-1]) {
		e--
	}
	return s, e
}

// Span is [S,E).
type Span struct{ S, E int }

// HeaderLines splits the header block starting at offs into logical lines
// (a line end followed by SP/HT is a fold and does not end the line). It
// returns the line extents (terminator included), the offset right after the
// blank line and ok=false when the block is not terminated inside b.
func HeaderLines(b []byte, offs int) (lines []Span, end int, ok bool) {
	eol := func(k int) int { // length of the line end at k (b[k] is CR or LF)
		if b[k] == '\r' && k+1 < len(b) && b[k+1] == '\n' {
			return 2
		}
		return 1
	}
	i := offs
	for i < len(b) {
		if b[i] == '\r' || b[i] == '\n' {
			return lines, i + eol(i), true
		}
		j := i
		for {
			k := j
			for k < len(b) && b[k] != '\r' && b[k] != '\n' {
				k++
			}
			if k >= len(b) {
				return lines, 0, false
			}
			nxt := k + eol(k)
			if nxt >= len(b) {
				return lines, 0, false
			}
			if b[nxt] == ' ' || b[nxt] == '\t' {
				j = nxt
				continue
			}
			lines = append(lines, Span{i, nxt})
			i = nxt
			break
		}
	}
	return lines, 0, false
}
