//go:build verif

package view

import "github.com/intuitivelabs/sipsp"

// HooksOn tells whether the automaton-state hooks are compiled in.
const HooksOn = true

func StMsg(m *sipsp.PSIPMsg) uint32 {
	s, _ := m.VerifState()
	st := uint32(s) << 24
	// header sub-state: state of the header being parsed
	n := m.HL.N
	if n < len(m.HL.Hdrs) {
		st |= uint32(m.HL.Hdrs[n].VerifState()) << 16
	} else {
		st |= (0x80 | uint32(m.HL.VerifScratchState())) << 16
	}
	st |= uint32(m.FL.VerifState()) << 12
	return st
}
func StFLine(p *sipsp.PFLine) uint32                  { return uint32(p.VerifState()) }
func StHdr(p *sipsp.Hdr) uint32                       { return uint32(p.VerifState()) }
func StFrom(p *sipsp.PFromBody) uint32                { return uint32(p.VerifState()) }
func StCSeq(p *sipsp.PCSeqBody) uint32                { return uint32(p.VerifState()) }
func StCallID(p *sipsp.PCallIDBody) uint32            { return uint32(p.VerifState()) }
func StUInt(p *sipsp.PUIntBody) uint32                { return uint32(p.VerifState()) }
func StTok(p *sipsp.PTokParam) uint32                 { return uint32(p.VerifState()) }
func StHdrLstScratch(p *sipsp.HdrLst) uint32          { return uint32(p.VerifScratchState()) }
func StContactsScratch(p *sipsp.PContacts) uint32     { return uint32(p.VerifScratchState()) }
func StPAIsScratch(p *sipsp.PPAIs) uint32             { return uint32(p.VerifScratchState()) }
func StURIParamsScratch(p *sipsp.URIParamsLst) uint32 { return uint32(p.VerifScratchState()) }
func StURIHdrsScratch(p *sipsp.URIHdrsLst) uint32     { return uint32(p.VerifScratchState()) }
