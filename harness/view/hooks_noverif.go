//go:build !verif

package view

import "github.com/intuitivelabs/sipsp"

// HooksOn tells whether the automaton-state hooks are compiled in.
const HooksOn = false

func StMsg(m *sipsp.PSIPMsg) uint32                   { return 0 }
func StFLine(p *sipsp.PFLine) uint32                  { return 0 }
func StHdr(p *sipsp.Hdr) uint32                       { return 0 }
func StFrom(p *sipsp.PFromBody) uint32                { return 0 }
func StCSeq(p *sipsp.PCSeqBody) uint32                { return 0 }
func StCallID(p *sipsp.PCallIDBody) uint32            { return 0 }
func StUInt(p *sipsp.PUIntBody) uint32                { return 0 }
func StTok(p *sipsp.PTokParam) uint32                 { return 0 }
func StHdrLstScratch(p *sipsp.HdrLst) uint32          { return 0 }
func StContactsScratch(p *sipsp.PContacts) uint32     { return 0 }
func StPAIsScratch(p *sipsp.PPAIs) uint32             { return 0 }
func StURIParamsScratch(p *sipsp.URIParamsLst) uint32 { return 0 }
func StURIHdrsScratch(p *sipsp.URIHdrsLst) uint32     { return 0 }
