package view

import (
	"fmt"

	"github.com/intuitivelabs/sipsp"
)

// Deep makes the walkers include the in-progress slot [N] of list objects
// (only used by the C04 dereference check; never for comparisons).
type Opt struct {
	Deep bool
	// CapIndep restricts the walk to what must not depend on the capacity of
	// caller arrays (C13): stored elements only up to the given limits, and no
	// VNo()/PNo()/HNo()/More() facts.
	CapIndep     bool
	HdrLimit     int
	ContactLimit int
	ParamLimit   int
}

func (v *Vec) idx(name string, i int) {
	if v.Lab {
		v.pre = append(v.pre, fmt.Sprintf("%s[%d].", name, i))
	}
}

// FLine walks a PFLine.
func FLine(v *Vec, fl *sipsp.PFLine) {
	v.Push("FL.")
	v.I("Status", int64(fl.Status))
	v.I("MethodNo", int64(fl.MethodNo))
	v.PF("Method", fl.Method)
	v.PF("URI", fl.URI)
	v.PF("Version", fl.Version)
	v.PF("StatusCode", fl.StatusCode)
	v.PF("Reason", fl.Reason)
	v.B("Request()", fl.Request())
	v.B("Empty()", fl.Empty())
	v.B("Parsed()", fl.Parsed())
	v.B("Pending()", fl.Pending())
	v.Pop()
}

// Hdr walks a Hdr.
func Hdr(v *Vec, h *sipsp.Hdr) {
	v.I("Type", int64(h.Type))
	v.PF("Name", h.Name)
	v.PF("Val", h.Val)
	v.B("Missing()", h.Missing())
}

// HdrLst walks a HdrLst: counters, stored headers, first-of-type table.
func HdrLst(v *Vec, hl *sipsp.HdrLst, o Opt) {
	v.Push("HL.")
	v.I("PFlags", int64(hl.PFlags))
	v.I("N", int64(hl.N))
	n := hl.N
	if n > len(hl.Hdrs) {
		n = len(hl.Hdrs)
	}
	if o.Deep && n < len(hl.Hdrs) {
		n++
	}
	if o.CapIndep && n > o.HdrLimit {
		n = o.HdrLimit
	}
	if n < 0 {
		n = 0
	}
	for i := 0; i < n; i++ {
		v.idx("Hdrs", i)
		Hdr(v, &hl.Hdrs[i])
		v.Pop()
	}
	for t := sipsp.HdrNone; t <= sipsp.HdrOther+1; t++ {
		h := hl.GetHdr(t)
		v.idx("GetHdr", int(t))
		if h == nil {
			v.I("nil", 1)
		} else {
			v.I("nil", 0)
			Hdr(v, h)
		}
		v.Pop()
	}
	v.Pop()
}

// From walks a PFromBody.
func From(v *Vec, f *sipsp.PFromBody) {
	v.PF("Name", f.Name)
	v.PF("URI", f.URI)
	v.PF("Tag", f.Tag)
	v.B("Star", f.Star)
	v.B("LR", f.LR)
	v.B("HasExpires", f.HasExpires)
	v.I("Type", int64(f.Type))
	v.I("Q", int64(f.Q))
	v.I("Expires", int64(f.Expires))
	v.PF("Params", f.Params)
	v.PF("V", f.V)
	v.I("ParamErr", int64(f.ParamErr))
	v.Off("ErrOffs", int(f.ErrOffs), true)
	v.B("Empty()", f.Empty())
	v.B("Parsed()", f.Parsed())
	v.B("Pending()", f.Pending())
}

// FromP walks a PFromBody under a label prefix.
func FromP(v *Vec, pre string, f *sipsp.PFromBody) {
	v.Push(pre)
	From(v, f)
	v.Pop()
}

// Contacts walks a PContacts.
func Contacts(v *Vec, c *sipsp.PContacts, o Opt) {
	v.Push("Contacts.")
	v.I("N", int64(c.N))
	v.I("HNo", int64(c.HNo))
	v.I("MaxExpires", int64(c.MaxExpires))
	v.I("MinExpires", int64(c.MinExpires))
	v.PF("LastHVal", c.LastHVal)
	if !o.CapIndep {
		v.I("VNo()", int64(c.VNo()))
		v.B("More()", c.More())
	}
	v.B("Empty()", c.Empty())
	v.B("Parsed()", c.Parsed())
	n := c.VNo()
	if o.Deep && n < len(c.Vals) {
		n++
	}
	if o.CapIndep && n > o.ContactLimit {
		n = o.ContactLimit
	}
	for i := 0; i < n; i++ {
		v.idx("Vals", i)
		From(v, &c.Vals[i])
		v.Pop()
	}
	if !o.Deep {
		// accessor: first and last value must stay retrievable
		for _, i := range [...]int{0, c.N - 1, c.N} {
			if i < 0 || (o.CapIndep && i == c.N) {
				continue
			}
			v.idx("GetContact", i)
			p := c.GetContact(i)
			if p == nil {
				v.I("nil", 1)
			} else {
				v.I("nil", 0)
				From(v, p)
			}
			v.Pop()
		}
	}
	v.Pop()
}

// PAIs walks a PPAIs.
func PAIs(v *Vec, c *sipsp.PPAIs, o Opt) {
	v.Push("PAIs.")
	v.I("N", int64(c.N))
	v.I("HNo", int64(c.HNo))
	v.PF("LastHVal", c.LastHVal)
	v.I("VNo()", int64(c.VNo()))
	v.B("More()", c.More())
	v.B("Empty()", c.Empty())
	v.B("Parsed()", c.Parsed())
	n := c.VNo()
	if o.Deep && n < len(c.Vals) {
		n++
	}
	for i := 0; i < n; i++ {
		v.idx("Vals", i)
		From(v, &c.Vals[i])
		v.Pop()
	}
	if !o.Deep {
		for i := 0; i <= 2; i++ {
			v.idx("GetPAI", i)
			p := c.GetPAI(i)
			if p == nil {
				v.I("nil", 1)
			} else {
				v.I("nil", 0)
				From(v, p)
			}
			v.Pop()
		}
	}
	v.Pop()
}

// CSeq walks a PCSeqBody.
func CSeq(v *Vec, c *sipsp.PCSeqBody) {
	v.Push("CSeq.")
	v.I("CSeqNo", int64(c.CSeqNo))
	v.I("MethodNo", int64(c.MethodNo))
	v.PF("CSeq", c.CSeq)
	v.PF("Method", c.Method)
	v.PF("V", c.V)
	v.B("Empty()", c.Empty())
	v.B("Parsed()", c.Parsed())
	v.B("Pending()", c.Pending())
	v.Pop()
}

// CallID walks a PCallIDBody.
func CallID(v *Vec, c *sipsp.PCallIDBody) {
	v.Push("Callid.")
	v.PF("CallID", c.CallID)
	v.B("Empty()", c.Empty())
	v.B("Parsed()", c.Parsed())
	v.B("Pending()", c.Pending())
	v.Pop()
}

// UInt walks a PUIntBody.
func UInt(v *Vec, pre string, c *sipsp.PUIntBody) {
	v.Push(pre)
	v.I("UIVal", int64(c.UIVal))
	v.PF("SVal", c.SVal)
	v.B("Empty()", c.Empty())
	v.B("Parsed()", c.Parsed())
	v.B("Pending()", c.Pending())
	v.Pop()
}

// HdrVals walks a PHdrVals.
func HdrVals(v *Vec, pv *sipsp.PHdrVals, o Opt) {
	v.Push("PV.")
	FromP(v, "From.", &pv.From)
	FromP(v, "To.", &pv.To)
	CallID(v, &pv.Callid)
	CSeq(v, &pv.CSeq)
	UInt(v, "CLen.", &pv.CLen)
	Contacts(v, &pv.Contacts, o)
	PAIs(v, &pv.PAIs, o)
	UInt(v, "Expires.", &pv.Expires)
	mx, ok := pv.MaxExpires()
	v.I("MaxExpires().v", int64(mx))
	v.B("MaxExpires().ok", ok)
	v.Pop()
}

// MsgOpt selects message-level exclusions.
type MsgOpt struct {
	Opt
	NoBodyExtent bool // C03 exemption: body extent / Buf / RawMsg of a message w/o Content-Length
}

// Msg walks a PSIPMsg.
func Msg(v *Vec, m *sipsp.PSIPMsg, o MsgOpt) {
	FLine(v, &m.FL)
	HdrVals(v, &m.PV, o.Opt)
	HdrLst(v, &m.HL, o.Opt)
	if o.NoBodyExtent {
		v.Off("Body.Offs", int(m.Body.Offs), m.Body.Len == 0)
	} else {
		v.PF("Body", m.Body)
		// Buf is what the parser saved only once it set RawMsg (message
		// complete, or the no-Content-Length verdict); before that it is
		// whatever the caller handed to Init() / what Reset() deliberately kept
		if m.Parsed() {
			// "a reference to buf[] will be saved inside msg.Buf when parsing is complete": only then
			v.Bytes("Buf", m.Buf, v.Shift)
		}
		if m.RawMsg != nil {
			v.B("RawMsg.nil", false)
			// (RawMsg is compared by content below; where it sits relative to Buf is not recorded:
			// after an error verdict nothing says that it is a part of Buf at all)
		} else {
			v.B("RawMsg.nil", true)
		}
		v.Bytes("RawMsg", m.RawMsg, 0)
	}
	v.B("Parsed()", m.Parsed())
	v.B("Err()", m.Err())
	v.B("Request()", m.Request())
	v.I("Method()", int64(m.Method()))
}

// TokParam walks a PTokParam.
func TokParam(v *Vec, p *sipsp.PTokParam) {
	v.PF("All", p.All)
	v.PF("Name", p.Name)
	v.PF("Val", p.Val)
	v.B("Empty()", p.Empty())
}

// URIParams walks a URIParamsLst.
func URIParams(v *Vec, l *sipsp.URIParamsLst, o Opt) {
	v.Push("URIParams.")
	v.I("N", int64(l.N))
	v.I("Types", int64(l.Types))
	if !o.CapIndep {
		v.I("PNo()", int64(l.PNo()))
		v.B("More()", l.More())
	}
	v.B("Empty()", l.Empty())
	n := l.PNo()
	if o.Deep && n < len(l.Params) {
		n++
	}
	if o.CapIndep && n > o.ParamLimit {
		n = o.ParamLimit
	}
	for i := 0; i < n; i++ {
		v.idx("Params", i)
		TokParam(v, &l.Params[i].Param)
		v.I("T", int64(l.Params[i].T))
		v.Pop()
	}
	v.Pop()
}

// URIHdrs walks a URIHdrsLst.
func URIHdrs(v *Vec, l *sipsp.URIHdrsLst, o Opt) {
	v.Push("URIHdrs.")
	v.I("N", int64(l.N))
	if !o.CapIndep {
		v.I("HNo()", int64(l.HNo()))
		v.B("More()", l.More())
	}
	v.B("Empty()", l.Empty())
	n := l.HNo()
	if o.Deep && n < len(l.Hdrs) {
		n++
	}
	if o.CapIndep && n > o.ParamLimit {
		n = o.ParamLimit
	}
	for i := 0; i < n; i++ {
		v.idx("Hdrs", i)
		TokParam(v, (*sipsp.PTokParam)(&l.Hdrs[i]))
		v.Pop()
	}
	v.Pop()
}

// URI walks a PsipURI (with its derived views).
func URI(v *Vec, u *sipsp.PsipURI) {
	v.Push("URI.")
	v.I("URIType", int64(u.URIType))
	v.PF("Scheme", u.Scheme)
	v.PF("User", u.User)
	v.PF("Pass", u.Pass)
	v.PF("Host", u.Host)
	v.PF("Port", u.Port)
	v.PF("Params", u.Params)
	v.PF("Headers", u.Headers)
	v.I("PortNo", int64(u.PortNo))
	v.Pop()
}
