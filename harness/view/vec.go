// Package view defines the "public view" of every parser object: all
// exported fields plus the results of the exported predicates/accessors,
// flattened into a vector of integers so that two results can be compared
// with a plain loop (no reflection, no formatting on the hot path).
//
// The same walk also performs the C04 dereference check (every PField must
// be addressable inside the buffer it refers to) and the C11 shift.
package view

import (
	"fmt"

	"github.com/intuitivelabs/sipsp"
)

// Vec is a flattened view. With Lab set it also records a label per entry
// (used only to explain a mismatch).
type Vec struct {
	N     []int64
	L     []string
	Lab   bool
	pre   []string
	Shift int    // subtracted from every non-zero PField offset (C11)
	BufLn int    // length of the buffer the fields refer to (-1: no deref check)
	OOB   string // first field found out of range ("" none)
	Start int    // text start offset (for the set-but-empty normalisation)
}

// Reset prepares the vector for a new walk.
func (v *Vec) Reset(bufLen int) {
	v.N = v.N[:0]
	v.L = v.L[:0]
	v.pre = v.pre[:0]
	v.Shift = 0
	v.BufLn = bufLen
	v.OOB = ""
	v.Start = 0
}

func (v *Vec) label(l string) string {
	s := ""
	for _, p := range v.pre {
		s += p
	}
	return s + l
}

// Push / Pop manage label prefixes (only effective with Lab).
func (v *Vec) Push(p string) {
	if v.Lab {
		v.pre = append(v.pre, p)
	}
}
func (v *Vec) Pop() {
	if v.Lab {
		v.pre = v.pre[:len(v.pre)-1]
	}
}

// I appends an integer fact.
func (v *Vec) I(l string, x int64) {
	v.N = append(v.N, x)
	if v.Lab {
		v.L = append(v.L, v.label(l))
	}
}

// B appends a boolean fact.
func (v *Vec) B(l string, b bool) {
	if b {
		v.I(l, 1)
	} else {
		v.I(l, 0)
	}
}

// PF appends a field (offset, length), dereference-checked and shifted.
func (v *Vec) PF(l string, f sipsp.PField) {
	if v.BufLn >= 0 && int(f.Offs)+int(f.Len) > v.BufLn && v.OOB == "" {
		v.OOB = fmt.Sprintf("%s={Offs:%d,Len:%d} beyond buffer length %d", v.label(l), f.Offs, f.Len, v.BufLn)
	}
	o := int64(f.Offs)
	if f.Offs != 0 || f.Len != 0 {
		o -= int64(v.Shift)
	}
	if f.Len == 0 && int(f.Offs) == v.Start {
		// a zero-length field at the very start of the text cannot be told
		// from a never-set field once the text starts at offset 0
		o = 0
	}
	v.N = append(v.N, o, int64(f.Len))
	if v.Lab {
		v.L = append(v.L, v.label(l)+".Offs", v.label(l)+".Len")
	}
}

// Off appends a plain offset (shifted unless zero and ZeroIsUnset).
func (v *Vec) Off(l string, o int, zeroIsUnset bool) {
	x := int64(o)
	if !(zeroIsUnset && o == 0) {
		x -= int64(v.Shift)
	}
	v.I(l, x)
}

// Bytes appends a byte slice (length and content hash) starting at index from.
func (v *Vec) Bytes(l string, b []byte, from int) {
	if from > len(b) {
		from = len(b)
	}
	b = b[from:]
	h := uint64(14695981039346656037)
	for _, c := range b {
		h ^= uint64(c)
		h *= 1099511628211
	}
	v.I(l+".len", int64(len(b)))
	v.I(l+".hash", int64(h))
}

// Diff returns "" when a and b are equal, else a description of the first
// differing entry. relabel is called to obtain labelled copies lazily.
func Diff(a, b *Vec) string {
	if len(a.N) != len(b.N) {
		return fmt.Sprintf("view sizes differ: %d vs %d", len(a.N), len(b.N))
	}
	for i := range a.N {
		if a.N[i] != b.N[i] {
			l := fmt.Sprintf("entry %d", i)
			if a.Lab && i < len(a.L) {
				l = a.L[i]
			} else if b.Lab && i < len(b.L) {
				l = b.L[i]
			}
			return fmt.Sprintf("%s: %d vs %d", l, a.N[i], b.N[i])
		}
	}
	return ""
}

// Equal compares the numeric content.
func Equal(a, b *Vec) bool {
	if len(a.N) != len(b.N) {
		return false
	}
	for i := range a.N {
		if a.N[i] != b.N[i] {
			return false
		}
	}
	return true
}

// Copy copies the numeric content of src into v.
func (v *Vec) Copy(src *Vec) {
	v.N = append(v.N[:0], src.N...)
	v.L = append(v.L[:0], src.L...)
	v.Lab = src.Lab
	v.OOB = src.OOB
}
