// sipspmon runs one property monitor against the sipsp package it was built
// with (module replace => /repo).
package main

import (
	"flag"
	"fmt"
	"os"
	"runtime"
	"runtime/debug"
	"strconv"

	"verif/harness/core"
	"verif/harness/gen"
	"verif/harness/mon"
)

func main() {
	prop := flag.String("prop", "", "property id (C01..C20)")
	tier := flag.String("tier", "quick", "quick | thorough")
	seedF := flag.String("seed", "", "seed (default $VERIF_SEED or 1)")
	replay := flag.String("replay", "", "replay file: re-run exactly that case")
	verbose := flag.Bool("v", false, "verbose stage output")
	verif := flag.String("verif", "/verif", "verification root")
	repo := flag.String("repo", "/repo", "repository under test (only used to read its test tables as corpus)")
	workers := flag.Int("workers", 0, "worker count (default GOMAXPROCS)")
	isoChild := flag.String("isolation-child", "", "internal: run the C04 isolation stage (race build) and write the summary to this file")
	covFunc := flag.String("covfunc", "", "output of `go tool covdata func` from the coverage pass: summarised into the evidence (observability only)")
	noEvidence := flag.Bool("noevidence", false, "internal: coverage pass, do not write evidence or replay files")
	flag.Parse()
	debug.SetGCPercent(600)
	core.VerifDir = *verif
	gen.RepoDir = *repo
	seed := uint64(1)
	if s := os.Getenv("VERIF_SEED"); s != "" {
		if v, err := strconv.ParseUint(s, 10, 64); err == nil {
			seed = v
		} else if v, err := strconv.ParseInt(s, 10, 64); err == nil {
			seed = uint64(v)
		}
	}
	if *seedF != "" {
		v, err := strconv.ParseUint(*seedF, 10, 64)
		if err != nil {
			fmt.Fprintln(os.Stderr, "bad -seed")
			os.Exit(3)
		}
		seed = v
	}
	if *isoChild != "" {
		os.Exit(mon.RunIsolationChild(seed, *tier, *isoChild))
	}
	var rp *core.Replay
	if *replay != "" {
		var err error
		rp, err = core.LoadReplay(*replay)
		if err != nil {
			fmt.Fprintln(os.Stderr, "cannot read replay file:", err)
			os.Exit(3)
		}
		if *prop == "" {
			*prop = rp.Property
		}
		*tier = rp.Tier
		seed = rp.Seed
	}
	fn := mon.Monitors[*prop]
	if fn == nil {
		fmt.Fprintf(os.Stderr, "unknown property %q\n", *prop)
		os.Exit(3)
	}
	if err := mon.SelfTest(); err != nil {
		fmt.Printf("INCONCLUSIVE property=%s reason=harness self-test failed: %v\n", *prop, err)
		os.Exit(core.ExitInconclusive)
	}
	r := core.NewRun(*prop, *tier, seed)
	r.Replay = rp
	r.Verbose = *verbose
	if *workers > 0 {
		r.NW = *workers
	} else {
		r.NW = runtime.GOMAXPROCS(0)
	}
	r.NoEvidence = *noEvidence
	if *covFunc != "" {
		if c := core.CoverageSummary(*covFunc); c != nil {
			r.Extra["library_statement_coverage_of_this_check (quick-size workload, go build -cover)"] = c
		}
	}
	fn(r)
	os.Exit(r.Finish())
}
