package mon

import (
	"bytes"
	"fmt"

	"github.com/intuitivelabs/sipsp"

	"verif/harness/core"
	"verif/harness/gen"
	"verif/harness/ref"
)

func pfNonZero(f sipsp.PField) bool { return f.Offs != 0 || f.Len != 0 }

func schemeLen(u []byte) int {
	if len(u) >= 5 && (u[3]|0x20) == 's' && u[4] == ':' {
		return 5
	}
	return 4
}

// telNumberOnly tells whether the text after "tel:" is a number with optional
// ;parameters (the clause the statement makes about tel: URIs).
func telNumberOnly(rest []byte) bool {
	if len(rest) == 0 {
		return false
	}
	for i, c := range rest {
		switch {
		case c >= '0' && c <= '9', c >= 'a' && c <= 'z', c >= 'A' && c <= 'Z', c == '+', c == '-', c == '.', c == '(', c == ')':
		case (c == ';' || c == '=') && i > 0:
		default:
			return false
		}
	}
	return rest[0] != ';' && rest[0] != '='
}

// checkURIParse is the C14 oracle for one input.
func checkURIParse(w *core.Worker, u []byte) (accepted bool) {
	var p sipsp.PsipURI
	var e sipsp.ErrorURI
	var n int
	if w.Idx%2 == 1 {
		// the result structure was used for another URI before and Reset()
		core.Guard(func() { sipsp.ParseURI([]byte("sips:olduser:oldpw@[::9]:5099;ttl=3;maddr=h?old=1"), &p); p.Reset() })
	}
	pan, pmsg, _ := core.Guard(func() { e, n = sipsp.ParseURI(u, &p) })
	w.Eval(1)
	if pan {
		// neither accepted nor "rejected with an error position inside the input"
		w.Fail("no-verdict-panic", func() *core.Violation {
			return core.V(fmt.Sprintf("ParseURI(%q) did not return a verdict: panic %s", u, pmsg), u, nil)
		})
		return false
	}
	fail := func(cls, what string) {
		w.Fail(cls, func() *core.Violation {
			return core.V(what, u, map[string]any{"parsed": fmt.Sprintf("%+v", p), "err": fmt.Sprint(e), "offs": n})
		})
	}
	if e != sipsp.NoURIErr {
		if n < 0 || n > len(u) {
			fail("error-offset", fmt.Sprintf("ParseURI(%q) rejected with error position %d outside the input (len %d)", u, n, len(u)))
		}
		return false
	}
	if n != len(u) {
		fail("consumed", fmt.Sprintf("ParseURI(%q) accepted but consumed %d of %d bytes", u, n, len(u)))
		return true
	}
	sl := schemeLen(u)
	fields := []sipsp.PField{p.Scheme, p.User, p.Pass, p.Host, p.Port, p.Params, p.Headers}
	names := []string{"scheme", "user", "password", "host", "port", "parameters", "headers"}
	for i, f := range fields {
		if int(f.Offs)+int(f.Len) > len(u) {
			fail("field-range", fmt.Sprintf("ParseURI(%q): %s field %v outside the input", u, names[i], f))
			return true
		}
	}
	if p.URIType == sipsp.TELuri {
		rest := u[sl:]
		// "with an empty host" holds for every accepted tel: URI, whatever else it contains
		if p.Host.Len != 0 {
			fail("tel-host", fmt.Sprintf("ParseURI(%q): accepted tel: URI reported with host %q (user %q); the host of a tel: URI is empty", u, p.Host.Get(u), p.User.Get(u)))
			return true
		}
		if !telNumberOnly(rest) {
			w.Inc("tel_not_a_plain_number(not judged)")
			return true
		}
		num := rest
		var params []byte
		hasP := false
		if i := bytes.IndexByte(rest, ';'); i >= 0 {
			num, params, hasP = rest[:i], rest[i+1:], true
		}
		if !bytes.Equal(p.User.Get(u), num) || p.Host.Len != 0 || pfNonZero(p.Pass) || pfNonZero(p.Port) ||
			hasP != pfNonZero(p.Params) || !bytes.Equal(p.Params.Get(u), params) || pfNonZero(p.Headers) {
			fail("tel", fmt.Sprintf("ParseURI(%q): tel number must be reported as user %q with empty host, parameters %q; got user %q host %q params %q",
				u, num, params, p.User.Get(u), p.Host.Get(u), p.Params.Get(u)))
		}
		w.Inc("tel_judged")
		return true
	}
	// order and disjointness
	last := 0
	for i, f := range fields {
		if !pfNonZero(f) {
			continue
		}
		if int(f.Offs) < last {
			fail("order", fmt.Sprintf("ParseURI(%q): %s field %v starts before the end (%d) of the previous component", u, names[i], f, last))
			return true
		}
		last = int(f.Offs) + int(f.Len)
	}
	// re-assembly
	var ra []byte
	ra = append(ra, p.Scheme.Get(u)...)
	if pfNonZero(p.User) {
		ra = append(ra, p.User.Get(u)...)
		if pfNonZero(p.Pass) {
			ra = append(ra, ':')
			ra = append(ra, p.Pass.Get(u)...)
		}
		ra = append(ra, '@')
	}
	ra = append(ra, p.Host.Get(u)...)
	if pfNonZero(p.Port) {
		ra = append(ra, ':')
		ra = append(ra, p.Port.Get(u)...)
	}
	if pfNonZero(p.Params) {
		ra = append(ra, ';')
		ra = append(ra, p.Params.Get(u)...)
	}
	if pfNonZero(p.Headers) {
		ra = append(ra, '?')
		ra = append(ra, p.Headers.Get(u)...)
	}
	if !bytes.Equal(ra, u) {
		fail("reassembly", fmt.Sprintf("ParseURI(%q): components joined with their delimiters give %q", u, ra))
		return true
	}
	// attribution against the reference splitter
	if int(p.Scheme.Offs) != 0 || int(p.Scheme.Len) != sl {
		fail("scheme", fmt.Sprintf("ParseURI(%q): scheme field %v", u, p.Scheme))
		return true
	}
	if c := u[sl]; c == '@' || c == ';' || c == '?' {
		// the very first byte after the scheme is never looked at by the parser and
		// lands in the host/user ("sip:@h" -> host "@h"); the stated clauses
		// (disjoint, ordered, re-assembly, consumed length) hold for these texts,
		// so attribution is not judged for them
		w.Inc("first_byte_is_delimiter(attribution not judged)")
		return true
	}
	rs := ref.SplitURI(u[sl:], sl)
	// explicit clause: ';' and '?' (and everything else) before the '@' belong to
	// the user part, the host starts right after the '@'
	if rs.HasUser {
		at := rs.HostOffs - 1
		ue := int(p.User.Offs) + int(p.User.Len)
		if pfNonZero(p.Pass) {
			ue = int(p.Pass.Offs) + int(p.Pass.Len)
		}
		if !pfNonZero(p.User) || int(p.User.Offs) != sl || ue != at || int(p.Host.Offs) != at+1 {
			fail("user-part-extent", fmt.Sprintf("ParseURI(%q): the text before the '@' (offset %d) is %q but user=%q@%d password=%q@%d host=%q@%d",
				u, at, u[sl:at], p.User.Get(u), p.User.Offs, p.Pass.Get(u), p.Pass.Offs, p.Host.Get(u), p.Host.Offs))
			return true
		}
		if pw := p.Pass.Get(u); bytes.IndexByte(pw, ';') >= 0 || bytes.IndexByte(pw, '?') >= 0 {
			fail("delimiter-in-password", fmt.Sprintf("ParseURI(%q): a ';' or '?' before the '@' belongs to the user part, but the password is %q (user %q)", u, pw, p.User.Get(u)))
			return true
		}
	} else if pfNonZero(p.User) || pfNonZero(p.Pass) {
		fail("user-without-at", fmt.Sprintf("ParseURI(%q): no '@' in the text but user=%q password=%q", u, p.User.Get(u), p.Pass.Get(u)))
		return true
	}
	// informational only: full agreement with the reference split (stricter than the statement)
	agree := func(f sipsp.PField, has bool, want []byte) bool {
		return pfNonZero(f) == has && (!has || bytes.Equal(f.Get(u), want))
	}
	if !(agree(p.User, rs.HasUser, rs.User) && agree(p.Pass, rs.HasPass, rs.Pass) && agree(p.Host, true, rs.Host) &&
		agree(p.Port, rs.HasPort, rs.Port) && agree(p.Params, rs.HasParams, rs.Params) && agree(p.Headers, rs.HasHeaders, rs.Headers)) {
		w.Inc("differs_from_reference_split(informational)")
	}
	if len(rs.Host) > 0 && rs.Host[0] == '[' && (p.Host.Len < 2 || p.Host.Get(u)[p.Host.Len-1] != ']') {
		fail("ipv6-brackets", fmt.Sprintf("ParseURI(%q): bracketed host reported as %q", u, p.Host.Get(u)))
	}
	want := sipsp.SIPuri
	if sl == 5 {
		want = sipsp.SIPSuri
	}
	if p.URIType != want {
		fail("uri-type", fmt.Sprintf("ParseURI(%q): URIType %v", u, p.URIType))
	}
	return true
}

var schemeVariants = []string{"sip:", "sips:", "tel:", "SIP:", "Sip:", "sIp:", "siP:", "SIPS:", "sIpS:", "SipS:", "TEL:", "tEl:", "Tel:"}

// RunC14 is the monitor for C14.
func RunC14(r *core.Run) {
	r.Rule = "case = one URI text; for every accepted sip:/sips: URI: consumed length == input length, fields inside the input, pairwise disjoint and in the order scheme<user<password<host<port<parameters<headers, the components joined with ':' '@' ':' ';' '?' reproduce the input byte for byte (present iff field non-zero), and every component equals (text and offset) an independent reference split of the generic grammar ([user[:pass]@]host[:port][;params][?headers], ';' '?' before '@' belong to the user, bracketed host through ']'); tel: + number[;params]: user == number, host empty; rejected: 0 <= error position <= len. Enumerated stage: EVERY string over the delimiter alphabet up to the length bound after each scheme; non-trivial = accepted URIs; distinct by construction"
	r.Assume = []string{"tel: texts that are not a plain number (contain '@', ':', '?', ...) are outside the statement's tel clause and only checked for crash-freedom/offsets (see D16 under C18)"}
	L := int(r.Pick(6, 8))
	es := NewEnum(":@;?&=[].a1", L)
	st := r.Stage("enum/after-scheme", es.Size()*3, func(w *core.Worker, idx int64) {
		s := sc(w)
		s.buf = append(s.buf[:0], schemeVariants[idx%3]...)
		s.buf = es.appendStr(s.buf, idx/3)
		if checkURIParse(w, s.buf) {
			w.NontrivialEnum()
			w.Inc("accepted")
		}
		if idx%1000003 == 5 {
			w.Sample("enum/after-scheme", string(s.buf))
		}
	})
	st.Exhaustive = true
	st.Space = es.Desc() + " after each of sip: sips: tel:"
	es2 := NewEnum(":@;?&=[].a1", L-2)
	st = r.Stage("enum/scheme-case-variants", es2.Size()*int64(len(schemeVariants)-3), func(w *core.Worker, idx int64) {
		s := sc(w)
		nv := int64(len(schemeVariants) - 3)
		s.buf = append(s.buf[:0], schemeVariants[3+idx%nv]...)
		s.buf = es2.appendStr(s.buf, idx/nv)
		if checkURIParse(w, s.buf) {
			w.NontrivialEnum()
			w.Inc("accepted")
		}
	})
	st.Exhaustive = true
	st.Space = es2.Desc() + fmt.Sprintf(" after each of %v", schemeVariants[3:])
	// very short inputs, with and without a complete scheme
	esS := NewEnum("sipSIPtel:@a", 5)
	st = r.Stage("enum/short-inputs", esS.Size(), func(w *core.Worker, idx int64) {
		s := sc(w)
		s.buf = esS.appendStr(s.buf[:0], idx)
		if checkURIParse(w, s.buf) {
			w.NontrivialEnum()
			w.Inc("accepted")
		}
		if len(s.buf) <= 5 {
			w.NontrivialEnum()
		}
	})
	st.Exhaustive = true
	st.Space = esS.Desc() + " (no scheme prefix added)"
	r.Stage("generated+mutated", r.Pick(1500000, 120000000), func(w *core.Worker, idx int64) {
		rr := core.NewRand(r.Seed, 0xC14, 3, uint64(idx))
		var u []byte
		switch rr.Intn(4) {
		case 0:
			u = []byte(gen.URI(rr).String())
		case 1:
			u = gen.Mutate(rr, []byte(gen.URI(rr).String()), 3)
		case 2:
			u = append([]byte(schemeVariants[rr.Intn(len(schemeVariants))]), rr.Bytes(rr.Range(1, 40), []byte(":@;?&=[].a1bcXYZ%-_+!~*'()/$,\"<> \x00\xff"))...)
		default:
			u = append([]byte("tel:"), rr.Bytes(rr.Range(1, 16), []byte("0123456789+-.()"))...)
			if rr.Bool() {
				u = append(u, ";ext=12;phone-context=a.b"[:rr.Intn(25)]...)
			}
		}
		if checkURIParse(w, u) {
			w.Nontrivial(core.HashBytes(u))
			w.Inc("accepted")
		}
		if w.WantSample("generated+mutated") {
			w.Sample("generated+mutated", core.Esc(u))
		}
	})
	// URIs that end exactly at (or a few bytes before) the 65,535-byte addressing limit
	r.Stage("at-the-length-limit", r.Pick(300, 6000), func(w *core.Worker, idx int64) {
		rr := core.NewRand(r.Seed, 0xC14, 4, uint64(idx))
		total := []int{65535, 65535, 65534, 65533, 65531, 65530, 65500, 32768, 32767, 65280}[rr.Intn(10)]
		u := limitURI(rr, total)
		if checkURIParse(w, u) {
			w.Nontrivial(core.HashBytes(u[:64]) ^ uint64(total)<<40 ^ core.HashBytes(u[len(u)-16:]))
			w.Inc("accepted")
			w.Inc("accepted_at_length_limit")
		}
	})
	r.Require("C14 accepted URIs at the length limit", r.Counter("accepted_at_length_limit"), 100)
	r.Require("C14 accepted URIs", r.Counter("accepted"), 50000)
	r.Require("C14 tel numbers judged", r.Counter("tel_judged"), 1000)
}

// limitURI builds a well-formed URI of exactly total bytes in which one component is stretched.
func limitURI(rr *core.Rand, total int) []byte {
	shapes := [][2]string{
		{"sip:", "@h"}, {"sip:u:", "@h"}, {"sip:u@", ""}, {"sip:u@", ";a=b;lr"}, {"sip:u@h;p=", ""}, {"sip:u@h;p=", "?x=y"},
		{"sip:u@h?k=", ""}, {"sips:u:pw@h:5061;transport=tcp;x=", "?a=b&c=d"}, {"sip:", ""}, {"sip:u@h:5060;", "=1"}, {"tel:+1", ""},
	}
	sh := shapes[rr.Intn(len(shapes))]
	pad := total - len(sh[0]) - len(sh[1])
	b := make([]byte, 0, total)
	b = append(b, sh[0]...)
	c := "abcdefghijklmnopqrstuvwxyz0123456789"[rr.Intn(36)]
	if sh[0] == "tel:+1" {
		c = "0123456789"[rr.Intn(10)]
	}
	for i := 0; i < pad; i++ {
		b = append(b, c)
	}
	return append(b, sh[1]...)
}

// ---- C18 ----

func lastNonEmptyEnd(p *sipsp.PsipURI) int {
	end := 0
	for _, f := range []sipsp.PField{p.Scheme, p.User, p.Pass, p.Host, p.Port, p.Params, p.Headers} {
		if f.Len > 0 && int(f.Offs)+int(f.Len) > end {
			end = int(f.Offs) + int(f.Len)
		}
	}
	return end
}

// checkViews checks Long/Short/Flat/Truncate on a parsed URI whose text is u at offset base of buf.
func checkViews(p *sipsp.PsipURI, buf []byte, base int, u []byte) string {
	l, s := p.Long(), p.Short()
	wantEnd := lastNonEmptyEnd(p)
	if p.User.Len == 0 && p.Host.Len == 0 && p.Port.Len == 0 && p.Params.Len == 0 && p.Headers.Len == 0 && p.Pass.Len == 0 {
		return ""
	}
	if int(l.Offs) != int(p.Scheme.Offs) || int(l.Offs)+int(l.Len) != wantEnd {
		return fmt.Sprintf("Long()=%v must run from the scheme (%d) to the end of the last non-empty component (%d)", l, p.Scheme.Offs, wantEnd)
	}
	var se int
	switch {
	case p.Port.Len > 0:
		se = int(p.Port.Offs) + int(p.Port.Len)
	case p.Host.Len > 0:
		se = int(p.Host.Offs) + int(p.Host.Len)
	default:
		se = int(p.User.Offs) + int(p.User.Len)
	}
	if (p.Port.Len > 0 || p.Host.Len > 0 || p.User.Len > 0) && (int(s.Offs) != int(p.Scheme.Offs) || int(s.Offs)+int(s.Len) != se) {
		return fmt.Sprintf("Short()=%v must run from the scheme (%d) to the end of port/host/user (%d)", s, p.Scheme.Offs, se)
	}
	if s.Len > 0 && (s.Offs != l.Offs || s.Len > l.Len) {
		return fmt.Sprintf("Short()=%v is not a prefix of Long()=%v", s, l)
	}
	var flat []byte
	pan, pmsg, _ := core.Guard(func() { flat = p.Flat(buf) })
	if pan {
		return "Flat panicked: " + pmsg
	}
	if !bytes.Equal(flat, buf[l.Offs:l.Offs+l.Len]) || !bytes.Equal(flat, u[:int(l.Len)]) {
		return fmt.Sprintf("Flat()=%q is not the bytes of Long() / a prefix of the URI text", flat)
	}
	q := *p
	q.Truncate()
	want := *p
	want.Params = sipsp.PField{}
	want.Headers = sipsp.PField{}
	if q != want {
		return fmt.Sprintf("Truncate() must clear exactly parameters and headers: before %+v after %+v", *p, q)
	}
	return ""
}

// checkRelocate is the C18 oracle for one accepted URI.
func checkRelocate(w *core.Worker, rr *core.Rand, u []byte, big []byte) {
	var p sipsp.PsipURI
	if e, _ := sipsp.ParseURI(u, &p); e != sipsp.NoURIErr {
		return
	}
	w.Inc("accepted")
	finding := ""
	if p.URIType == sipsp.TELuri && bytes.IndexByte(u, '@') >= 0 {
		finding = "D16"
	}
	fail := func(cls, what string, d map[string]any) {
		// D16 (known) is exactly: tel: text containing '@' => components out of textual
		// order => Long()/Short() wrong. Only the view clauses are attributed to it; a
		// relocation failure on such a URI is a different violation and is reported.
		fnd := ""
		if cls == "views" || cls == "relocated-views" {
			fnd = finding
		}
		w.FailF(cls, fnd, func() *core.Violation {
			if d == nil {
				d = map[string]any{}
			}
			d["parsed"] = fmt.Sprintf("%+v", p)
			v := core.V(what, u, d)
			v.Finding = fnd
			return v
		})
	}
	if m := checkViews(&p, u, 0, u); m != "" {
		fail("views", fmt.Sprintf("URI %q: %s", u, m), nil)
		if finding != "" {
			return
		}
	}
	n := len(u)
	// also targets so close to the addressing limit that only too-short spans exist there
	targets := []int{0, 1, 255, 4096, 65535 - n - 3, 65535 - n, rr.Intn(60000), 65535 - n + 1, 65535 - n + 2, 65535 - n/2, 65534}
	for _, t := range targets {
		if t < 0 {
			continue
		}
		for span := 0; span <= n+3; span++ {
			if t+span > 65535 {
				break
			}
			q := p
			var ok bool
			pan, pmsg, _ := core.Guard(func() { ok = q.AdjustOffs(sipsp.PField{Offs: sipsp.OffsT(t), Len: sipsp.OffsT(span)}) })
			w.Eval(1)
			d := map[string]any{"target": t, "span": span, "uri_len": n}
			if pan {
				fail("relocate-panic", fmt.Sprintf("URI %q (len %d): AdjustOffs({%d,%d}) panicked: %s", u, n, t, span, pmsg), d)
				return
			}
			if span >= n {
				if !ok {
					fail("relocate-refused", fmt.Sprintf("URI %q (len %d): AdjustOffs refused a span of %d bytes at %d", u, n, span, t), d)
					return
				}
				// every component must denote the same bytes in a buffer holding u at t
				if t+n <= len(big) {
					copy(big[t:], u)
					of := []sipsp.PField{p.Scheme, p.User, p.Pass, p.Host, p.Port, p.Params, p.Headers}
					nf := []sipsp.PField{q.Scheme, q.User, q.Pass, q.Host, q.Port, q.Params, q.Headers}
					for i := range of {
						if int(nf[i].Offs)+int(nf[i].Len) > t+span || of[i].Len != nf[i].Len || !bytes.Equal(nf[i].Get(big), of[i].Get(u)) ||
							pfNonZero(of[i]) != pfNonZero(nf[i]) {
							fail("relocate-component", fmt.Sprintf("URI %q relocated to {%d,%d}: component %d was %v=%q, now %v=%q", u, t, span, i, of[i], of[i].Get(u), nf[i], nf[i].Get(big[:t+span])), d)
							return
						}
					}
					if q.PortNo != p.PortNo || q.URIType != p.URIType {
						fail("relocate-values", fmt.Sprintf("URI %q relocated: PortNo/URIType changed", u), d)
						return
					}
					if span == n {
						if m := checkViews(&q, big, t, u); m != "" {
							fail("relocated-views", fmt.Sprintf("URI %q relocated to %d: %s", u, t, m), d)
							if finding != "" {
								return
							}
						}
						// a relocated URI is still a parsed URI: it must be movable again
						t2 := 0
						if n < 65535 && t%4 != 1 { // (every fourth target moves back to offset 0)
							t2 = (t*7 + 13) % (65535 - n)
						}
						q2 := q
						var ok2 bool
						// the second move uses the shortest, a slightly longer and the longest admissible span
						span2 := []int{n, n + 1, 65535 - t2}[t%3]
						pan2, pmsg2, _ := core.Guard(func() { ok2 = q2.AdjustOffs(sipsp.PField{Offs: sipsp.OffsT(t2), Len: sipsp.OffsT(span2)}) })
						if pan2 || !ok2 {
							fail("relocate-twice", fmt.Sprintf("URI %q relocated to %d cannot be relocated again to {%d,%d}: ok=%v panic=%q", u, t, t2, span2, ok2, pmsg2), d)
							return
						}
						// and a too short second span must be refused without changes
						if n > 0 {
							q3 := q
							var ok3 bool
							pan3, _, _ := core.Guard(func() { ok3 = q3.AdjustOffs(sipsp.PField{Offs: sipsp.OffsT(t2), Len: sipsp.OffsT(n - 1)}) })
							if pan3 || ok3 || q3 != q {
								fail("relocate-twice-too-short", fmt.Sprintf("URI %q (len %d) relocated to %d, then AdjustOffs({%d,%d}): ok=%v panic=%v changed=%v", u, n, t, t2, n-1, ok3, pan3, q3 != q), d)
								return
							}
						}
						copy(big[t2:], u)
						nf2 := []sipsp.PField{q2.Scheme, q2.User, q2.Pass, q2.Host, q2.Port, q2.Params, q2.Headers}
						for i := range of {
							if int(nf2[i].Offs)+int(nf2[i].Len) > t2+n || of[i].Len != nf2[i].Len || !bytes.Equal(nf2[i].Get(big), of[i].Get(u)) {
								fail("relocate-twice-component", fmt.Sprintf("URI %q relocated to %d and then to %d: component %d was %v=%q, now %v", u, t, t2, i, of[i], of[i].Get(u), nf2[i]), d)
								return
							}
						}
					}
				}
			} else {
				if ok {
					fail("relocate-too-short-accepted", fmt.Sprintf("URI %q (len %d): AdjustOffs accepted a span of only %d bytes", u, n, span), d)
					return
				}
				if q != p {
					fail("relocate-refused-but-modified", fmt.Sprintf("URI %q (len %d): AdjustOffs({%d,%d}) returned false but changed the structure from %+v to %+v", u, n, t, span, p, q), d)
					return
				}
			}
		}
	}
}

type c18scratch struct{ big []byte }

// RunC18 is the monitor for C18.
func RunC18(r *core.Run) {
	r.Rule = "case = one accepted URI x (target offset t, span length l): AdjustOffs({t,l}) on a copy of the parsed URI for every l in 0..len+3 at t in {0,1,255,4096,65535-len-3,65535-len,random}: l >= len => true and every component yields the same bytes from a buffer holding the URI at t (PortNo/URIType unchanged, views shift along); l < len => false and the structure is bit-identical; Long() = scheme..last non-empty component, Short() = scheme..port/host/user and a prefix of Long(), Flat() = bytes of Long(), Truncate() clears exactly parameters and headers; a relocated URI can be relocated again (two-step history); non-trivial = accepted URIs; distinct by construction / hash"
	r.Assume = []string{"the URI length is the consumed length reported by ParseURI (== input length for accepted URIs, C14)"}
	L := int(r.Pick(5, 7))
	es := NewEnum(":@;?&=[].a1", L)
	getBig := func(w *core.Worker) []byte {
		s := sc(w)
		if cap(s.buf) < 65536 {
			s.buf = make([]byte, 65536)
		}
		return s.buf[:65536]
	}
	st := r.Stage("enum/after-scheme", es.Size()*3, func(w *core.Worker, idx int64) {
		rr := core.NewRand(r.Seed, 0xC18, 1, uint64(idx))
		u := append([]byte(schemeVariants[idx%3]), es.Str(nil, idx/3)...)
		before := w.Cnt["accepted"]
		checkRelocate(w, rr, u, getBig(w))
		if w.Cnt["accepted"] > before {
			w.NontrivialEnum()
		}
	})
	st.Exhaustive = true
	st.Space = es.Desc() + " after each of sip: sips: tel: (the accepted ones are relocated)"
	r.Stage("generated", r.Pick(200000, 20000000), func(w *core.Worker, idx int64) {
		rr := core.NewRand(r.Seed, 0xC18, 2, uint64(idx))
		u := []byte(gen.URI(rr).String())
		if rr.Intn(4) == 0 {
			u = gen.Mutate(rr, u, 2)
		}
		before := w.Cnt["accepted"]
		checkRelocate(w, rr, u, getBig(w))
		if w.Cnt["accepted"] > before {
			w.Nontrivial(core.HashBytes(u))
		}
		if w.WantSample("generated") {
			w.Sample("generated", core.Esc(u))
		}
	})
	// URIs as long as the addressing limit allows: spans that are a few bytes too short
	r.Stage("at-the-length-limit", r.Pick(120, 3000), func(w *core.Worker, idx int64) {
		rr := core.NewRand(r.Seed, 0xC18, 3, uint64(idx))
		total := []int{65535, 65535, 65534, 65533, 65532, 65531, 65530, 65528, 65500, 32768}[rr.Intn(10)]
		u := limitURI(rr, total)
		before := w.Cnt["accepted"]
		checkRelocate(w, rr, u, getBig(w))
		if w.Cnt["accepted"] > before {
			w.Nontrivial(core.HashBytes(u[:64]) ^ uint64(total)<<40 ^ core.HashBytes(u[len(u)-16:]))
			w.Inc("accepted_at_length_limit")
		}
	})
	r.Require("C18 URIs at the length limit relocated", r.Counter("accepted_at_length_limit"), 50)
	r.Require("C18 accepted URIs relocated", r.Counter("accepted"), 20000)
}
