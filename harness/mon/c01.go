package mon

import (
	"fmt"

	"verif/harness/core"
	"verif/harness/gen"
	"verif/harness/view"
)

// msgCfg draws a configuration from the grid: flags 0..7, header capacity
// {nil,0,1,2,N-1,N,N+1,64}, contact capacity {nil,0,1,2,M,M+1}.
func msgCfg(r *core.Rand, nh, nc int) Cfg {
	c := Cfg{MsgFlags: uint8(r.Intn(8)), ParamCap: 8}
	hc := []int{-1, -1, 0, 1, 2, nh - 1, nh, nh + 1, 64}
	c.HdrCap = hc[r.Intn(len(hc))]
	if c.HdrCap < -1 {
		c.HdrCap = 0
	}
	cc := []int{-1, -1, 0, 1, 2, nc, nc + 1}
	c.ContactCap = cc[r.Intn(len(cc))]
	return c
}

func countContacts(m *gen.MsgSpec) int {
	n := 0
	for i := range m.Hdrs {
		if m.Hdrs[i].Type == 8 {
			n += len(m.Hdrs[i].NAs)
		}
	}
	return n
}

var junkPool = []byte("\r\n \t\":;,<>\x00aZ9=@\\")

// withJunk returns junk||x and the start offset.
func withJunk(r *core.Rand, x []byte, dst []byte) ([]byte, int) {
	k := 0
	switch r.Intn(10) {
	case 0:
		k = 1
	case 1:
		k = r.Range(2, 40)
	case 2:
		k = 255 + r.Intn(3)
	}
	dst = dst[:0]
	for i := 0; i < k; i++ {
		dst = append(dst, junkPool[r.Intn(len(junkPool))])
	}
	dst = append(dst, x...)
	return dst, k
}

// resumeSchedules runs the schedule family on one case and returns whether
// some schedule was non-trivial.
func resumeSchedules(w *core.Worker, r *core.Rand, c *Case, op view.MsgOpt, s1Max int) {
	s := sc(w)
	n := len(c.Buf)
	nt := false
	run := func(cuts []int, label string) {
		res := CheckResume(w, c, cuts, op)
		if res.Suspended > 0 && res.Definite {
			nt = true
		}
		w.Inc("runs/" + label)
		if res.Definite {
			w.Inc("verdict/" + errName(res.Final))
		} else if !res.Bad {
			w.Inc("verdict/still-more-bytes-at-end")
		}
	}
	if n-c.Start <= s1Max {
		s.cuts = CutsEveryPrefix(s.cuts, c.Start, n)
		run(s.cuts, "S1-every-prefix")
	}
	if n-c.Start <= 64 {
		for cut := c.Start; cut < n; cut++ {
			s.cuts = CutsSingle(s.cuts, cut, n)
			run(s.cuts, "S2-single-cut")
		}
	} else {
		s.cuts = CutsInteresting(s.cuts, r, c.Buf, c.Start, 40)
		run(s.cuts, "S3-interesting")
		for k := 0; k < 2; k++ {
			s.cuts = CutsRandom(s.cuts, r, c.Start, n, r.Range(1, 19))
			run(s.cuts, "S4-random")
		}
	}
	// end-of-input flag given only on the last call
	if c.P.EndInput(c.Cfg) {
		s.cuts = CutsRandom(s.cuts, r, c.Start, n, r.Range(1, 4))
		if CheckLateEnd(w, c, s.cuts, op) {
			w.Inc("runs/late-end-flag")
		}
		// ... and the flagged call may bring no new bytes at all (everything was delivered, then
		// the end of the stream is noticed)
		s.cuts = append(s.cuts, n)
		if CheckLateEnd(w, c, s.cuts, op) {
			w.Inc("runs/late-end-flag-without-new-bytes")
		}
		if n-c.Start <= 64 {
			for cut := c.Start; cut < n; cut++ {
				s.cuts = CutsSingle(s.cuts, cut, n)
				CheckLateEnd(w, c, s.cuts, op)
			}
		}
	}
	// S5: empty growth (same prefix offered twice)
	s.cuts = CutsRandom(s.cuts, r, c.Start, n, r.Range(1, 6))
	dup := append([]int(nil), s.cuts...)
	for i := 0; i < len(s.cuts)-1; i += 2 {
		dup = append(dup, s.cuts[i])
	}
	for i := 1; i < len(dup); i++ {
		for j := i; j > 0 && dup[j] < dup[j-1]; j-- {
			dup[j], dup[j-1] = dup[j-1], dup[j]
		}
	}
	run(dup, "S5-empty-growth")
	if nt {
		w.Nontrivial(core.HashBytes(c.Buf) ^ uint64(c.Cfg.MsgFlags)<<56 ^ uint64(c.Cfg.HdrCap+2)<<48 ^ uint64(c.Cfg.ContactCap+2)<<40 ^ core.HashStr(c.P.Name))
		w.Inc("nontrivial_cases")
	}
}

// RunC01 is the monitor for C01.
func RunC01(r *core.Run) {
	r.Rule = "case = (message bytes, start offset, flags, header capacity, contact capacity, cut schedule); every step of the resumed object is compared with a fresh ParseSIPMsg on the same prefix, and the full public view at the definitive verdict; non-trivial = the resumed run suspended (more-bytes) at least once and then reached a definitive verdict; distinct by hash of (bytes, configuration)"
	r.Assume = []string{"the public view (harness/view) covers every exported field and accessor of PSIPMsg (checked by the view-completeness self test)",
		"no call is made after a definitive verdict"}
	P := ParserByName("ParseSIPMsg")
	op := view.MsgOpt{}
	nMsg := r.Pick(150000, 3000000)
	r.Stage("gmsg", nMsg, func(w *core.Worker, idx int64) {
		rr := core.NewRand(r.Seed, 0xC01, 1, uint64(idx))
		o := gen.MsgOpts{MinHdrs: 1, MaxHdrs: 12, MultiNA: 40, MaxBody: 30, TrailSemi: true, DupParams: rr.Bool()}
		if rr.Intn(8) == 0 {
			o.MaxHdrs = 40
		}
		m := gen.Msg(rr, o)
		s := sc(w)
		var start int
		s.buf, start = withJunk(rr, m.Raw, s.buf)
		c := &Case{P: P, Cfg: msgCfg(rr, len(m.Hdrs), countContacts(m)), Buf: s.buf, Start: start}
		if w.WantSample("gmsg") {
			w.Sample("gmsg", map[string]any{"msg": core.Esc(c.Buf), "start": start, "flags": c.Cfg.MsgFlags, "hdr_cap": c.Cfg.HdrCap, "contact_cap": c.Cfg.ContactCap})
		}
		resumeSchedules(w, rr, c, op, 600)
	})
	corpus := loadCorpus()
	nMut := r.Pick(80000, 1500000)
	r.Stage("gmut", nMut, func(w *core.Worker, idx int64) {
		rr := core.NewRand(r.Seed, 0xC01, 2, uint64(idx))
		src := corpus[rr.Intn(len(corpus))]
		mu := gen.Mutate(rr, src, 4)
		s := sc(w)
		var start int
		s.buf, start = withJunk(rr, mu, s.buf)
		c := &Case{P: P, Cfg: msgCfg(rr, 10, 3), Buf: s.buf, Start: start}
		if w.WantSample("gmut") {
			w.Sample("gmut", map[string]any{"msg": core.Esc(c.Buf), "start": start, "flags": c.Cfg.MsgFlags})
		}
		resumeSchedules(w, rr, c, op, 700)
	})
	nBytes := r.Pick(100000, 1500000)
	r.Stage("gbytes", nBytes, func(w *core.Worker, idx int64) {
		rr := core.NewRand(r.Seed, 0xC01, 3, uint64(idx))
		b := gen.Bytes(rr, 200)
		if rr.Intn(3) == 0 {
			// make it reach the header automata
			b = append([]byte("INVITE sip:a SIP/2.0\r\n"), b...)
		}
		c := &Case{P: P, Cfg: msgCfg(rr, 4, 2), Buf: b, Start: 0}
		resumeSchedules(w, rr, c, op, 300)
	})
	// long messages (up to the addressing limit) with cuts around powers of two and random cuts
	r.Stage("long-messages", r.Pick(1500, 40000), func(w *core.Worker, idx int64) {
		rr := core.NewRand(r.Seed, 0xC01, 5, uint64(idx))
		m := gen.Msg(rr, gen.MsgOpts{MinHdrs: 20, MaxHdrs: 60, MultiNA: 50, MaxBody: 200})
		b := m.Raw
		// stretch one header with a long folded value
		L := []int{2000, 8190, 8200, 16400, 33000, 60000}[rr.Intn(6)]
		ins := []byte("X-Long: a")
		for len(ins) < L && len(b)+len(ins) < 65000 {
			ins = append(ins, []string{" word", "\r\n more", ";p=v", ", x", "                "}[rr.Intn(5)]...)
		}
		ins = append(ins, "\r\n"...)
		pos := m.Hdrs[rr.Intn(len(m.Hdrs))].Line.S
		b = append(append(append([]byte(nil), b[:pos]...), ins...), b[pos:]...)
		if len(b) > 65535 {
			return
		}
		var cuts []int
		for _, c := range []int{255, 256, 4095, 4096, 8191, 8192, 8193, 16384, 32767, 32768, 65535} {
			if c < len(b) && rr.Bool() {
				cuts = append(cuts, c)
			}
		}
		for i := rr.Range(1, 10); i > 0; i-- {
			cuts = append(cuts, rr.Intn(len(b)+1))
		}
		cuts = append(cuts, len(b))
		sortInts(cuts)
		c := &Case{P: P, Cfg: msgCfg(rr, len(m.Hdrs)+1, countContacts(m)), Buf: b, Start: 0}
		c.Cfg.MsgFlags &^= 4
		res := CheckResume(w, c, cuts, op)
		if res.Suspended > 0 && res.Definite {
			w.Nontrivial(core.HashBytes(b[:200]) ^ uint64(len(b))<<32)
			w.Inc("nontrivial_cases")
		}
	})
	// many elements: counts around 8-bit / table-size boundaries (a single header with hundreds of
	// values or parameters, hundreds of headers, hundreds of URI parameters), cut inside them
	r.Stage("many-elements", r.Pick(3000, 60000), func(w *core.Worker, idx int64) {
		rr := core.NewRand(r.Seed, 0xC01, 7, uint64(idx))
		b := manyElementsMsg(rr)
		if len(b) > 65535 {
			return
		}
		var cuts []int
		for i := rr.Range(1, 6); i > 0; i-- {
			cuts = append(cuts, rr.Intn(len(b)+1))
		}
		cuts = append(cuts, len(b))
		sortInts(cuts)
		c := &Case{P: P, Cfg: msgCfg(rr, []int{8, 300, 700}[rr.Intn(3)], []int{2, 300, 700}[rr.Intn(3)]), Buf: b, Start: 0}
		c.Cfg.MsgFlags &^= 4
		if w.WantSample("many-elements") {
			w.Sample("many-elements", map[string]any{"msg_head": core.Esc(b[:minInt(len(b), 160)]), "len": len(b), "cuts": cuts})
		}
		res := CheckResume(w, c, cuts, op)
		if res.Suspended > 0 && res.Definite {
			w.Nontrivial(core.HashBytes(b[:minInt(len(b), 400)]) ^ uint64(len(b))<<32)
			w.Inc("nontrivial_cases")
		}
	})
	// enumerated short-message family: every body over the branch alphabet under
	// every typed header, inside a complete message, S1 + S2 on all of them
	L := int(r.Pick(3, 4))
	es := NewEnum("a \r\n;=,<>\"\\*1", L)
	heads := []string{"f:", "m:", "CSeq:", "i:", "l:", "X:", "Expires:", "P-Asserted-Identity:", "t :"}
	tails := []string{"\r\n\r\n", "\r\nm:<a>\r\n\r\nxy", "\n\n"}
	total := es.Size() * int64(len(heads)*len(tails))
	st := r.Stage("enum-short-msg", total, func(w *core.Worker, idx int64) {
		rr := core.NewRand(r.Seed, 0xC01, 4, uint64(idx))
		ti := int(idx % int64(len(tails)))
		hi := int(idx / int64(len(tails)) % int64(len(heads)))
		si := idx / int64(len(tails)*len(heads))
		s := sc(w)
		s.buf = append(s.buf[:0], "INVITE sip:a SIP/2.0\r\n"...)
		pre := len(s.buf)
		s.buf = append(s.buf, heads[hi]...)
		body := es.Str(nil, si)
		s.buf = append(s.buf, body...)
		s.buf = append(s.buf, tails[ti]...)
		c := &Case{P: P, Cfg: Cfg{MsgFlags: uint8(idx % 8), HdrCap: []int{-1, 0, 1, 2}[idx/8%4], ContactCap: []int{-1, 0, 1}[idx/32%3]}, Buf: s.buf, Start: 0}
		// S1 from the start of the header block on (the first line is constant)
		cs := sc(w)
		cs.cuts = CutsEveryPrefix(cs.cuts, pre, len(c.Buf))
		res := CheckResume(w, c, cs.cuts, op)
		nt := res.Suspended > 0 && res.Definite
		for cut := pre; cut < len(c.Buf); cut++ {
			cs.cuts = CutsSingle(cs.cuts, cut, len(c.Buf))
			res = CheckResume(w, c, cs.cuts, op)
			nt = nt || (res.Suspended > 0 && res.Definite)
		}
		if nt {
			w.NontrivialEnum()
			w.Inc("nontrivial_cases")
		}
		_ = rr
	})
	st.Exhaustive = true
	st.Space = fmt.Sprintf("%s as the value of each of %d header names, followed by each of %d tails, inside a request; S1 (every prefix from the header block on) and S2 (every single cut)", es.Desc(), len(heads), len(tails))
	r.Require("C01 non-trivial resumed cases", r.Counter("nontrivial_cases"), 1000)
}

// loadCorpus returns the built-in corpus plus messages extracted from the
// repository's own test tables when available.
func loadCorpus() [][]byte {
	var out [][]byte
	for _, s := range gen.Corpus {
		out = append(out, []byte(s))
	}
	out = append(out, gen.RepoCorpus()...)
	return out
}

func sortInts(a []int) {
	for i := 1; i < len(a); i++ {
		for j := i; j > 0 && a[j] < a[j-1]; j-- {
			a[j], a[j-1] = a[j-1], a[j]
		}
	}
}

// manyCounts are element counts around the places where an 8-bit counter, a table of 256 or a
// doubling array would misbehave.
var manyCounts = []int{100, 127, 128, 129, 200, 254, 255, 256, 257, 258, 300, 511, 512, 513, 700, 1023, 1024, 1025}

// manyElementsMsg builds a well-formed request in which ONE construct is repeated many times.
func manyElementsMsg(rr *core.Rand) []byte {
	k := manyCounts[rr.Intn(len(manyCounts))]
	b := []byte("INVITE sip:a@b SIP/2.0\r\nFrom: <sip:a@b>;tag=1\r\nTo: <sip:c@d>\r\nCall-ID: x\r\nCSeq: 1 INVITE\r\n")
	val := func(i int) string {
		switch rr.Intn(4) {
		case 0:
			return fmt.Sprintf("<sip:u%d@h>;expires=%d", i, 10+i)
		case 1:
			return fmt.Sprintf("sip:u%d@h", i)
		case 2:
			return fmt.Sprintf("\"n%d\" <sip:h>;q=0.%d", i, i%10)
		}
		return "<a>"
	}
	sep := []string{",", ", ", " ,", ",\r\n "}[rr.Intn(4)]
	switch rr.Intn(6) {
	case 0, 1: // one Contact / PAI / Route header with k values
		b = append(b, []string{"Contact: ", "m:", "P-Asserted-Identity: ", "Route: "}[rr.Intn(4)]...)
		for i := 0; i < k; i++ {
			if i > 0 {
				b = append(b, sep...)
			}
			b = append(b, val(i)...)
		}
		b = append(b, "\r\n"...)
	case 2: // k Contact headers of 1-2 values
		for i := 0; i < k; i++ {
			b = append(b, "m:"...)
			b = append(b, val(i)...)
			if rr.Intn(4) == 0 {
				b = append(b, ","...)
				b = append(b, val(i+1000)...)
			}
			b = append(b, "\r\n"...)
		}
	case 3: // k other headers
		for i := 0; i < k; i++ {
			b = append(b, fmt.Sprintf("X%d: v\r\n", i)...)
		}
	case 4: // one value with k header parameters
		b = append(b, "Contact: <sip:a@b>"...)
		for i := 0; i < k; i++ {
			b = append(b, fmt.Sprintf(";p%d=%d", i, i)...)
		}
		b = append(b, ";expires=7\r\n"...)
	case 5: // a URI with k parameters / headers
		b = append(b, "Contact: <sip:a@b"...)
		for i := 0; i < k; i++ {
			b = append(b, fmt.Sprintf(";p%d", i)...)
		}
		b = append(b, "?"...)
		for i := 0; i < k/2; i++ {
			b = append(b, fmt.Sprintf("h%d=%d&", i, i)...)
		}
		b = append(b, "z=1>;expires=9\r\n"...)
	}
	b = append(b, "Content-Length: 0\r\n\r\n"...)
	return b
}
