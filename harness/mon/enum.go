package mon

import (
	"fmt"

	"github.com/intuitivelabs/sipsp"

	"verif/harness/core"
	"verif/harness/view"
)

// EnumFamily is one G-enum family: an alphabet with a length bound, wrapped
// into prefixes/suffixes and fed to a set of parsers under a set of
// configurations.
type EnumFamily struct {
	Name       string
	Parsers    []string
	Alpha      string
	LQ, LT     int
	Prefixes   []string
	Suffixes   []string
	Cfgs       []Cfg
	JunkStarts bool // also run with a junk prefix and a non-zero start offset
}

// TokFlagSets are the option sets the library itself uses or documents.
var TokFlagSets = []sipsp.POptFlags{
	0,
	sipsp.POptTokCommaTermF,
	sipsp.POptTokQmTermF,
	sipsp.POptTokSpTermF,
	sipsp.POptInputEndF,
	sipsp.POptParamSemiSepF | sipsp.POptTokCommaTermF | sipsp.POptInputEndF, // GetViaBrSig
	sipsp.POptTokURIParamF | sipsp.POptInputEndF,                            // URIParamsEq
	sipsp.POptTokURIHdrF | sipsp.POptInputEndF,                              // URIHdrsEq
	sipsp.POptTokURIParamF,
	sipsp.POptTokURIHdrF,
	sipsp.POptTokURIParamF | sipsp.POptTokSpTermF,
	sipsp.POptParamAmpSepF,
	sipsp.POptParamAmpSepF | sipsp.POptTokQmTermF,
	sipsp.POptParamSemiSepF | sipsp.POptTokSpTermF,
	sipsp.POptTokCommaTermF | sipsp.POptTokSpTermF,
}

func tokCfgs(caps []int) []Cfg {
	var out []Cfg
	for i, f := range TokFlagSets {
		out = append(out, Cfg{Flags: f, ParamCap: caps[i%len(caps)], HdrCap: -1, ContactCap: -1})
	}
	return out
}

func capCfgs(hdr, contact []int) []Cfg {
	var out []Cfg
	for _, h := range hdr {
		for _, c := range contact {
			out = append(out, Cfg{HdrCap: h, ContactCap: c, ParamCap: 8})
		}
	}
	return out
}

// EnumFamilies is the table of §4 of DESIGN.md.
var EnumFamilies = []*EnumFamily{
	{Name: "name-addr", Alpha: "a \r\n;=,<>\"\\*", LQ: 5, LT: 6,
		Parsers:  []string{"ParseFromVal", "ParseNameAddrPVal(To)", "ParseNameAddrPVal(Route)", "ParseOneContact", "ParseOnePAI", "ParseAllPAIValues"},
		Prefixes: []string{""}, Suffixes: []string{"\r\nX", ">\r\nX"}, Cfgs: []Cfg{DefCfg}, JunkStarts: true},
	{Name: "all-contacts", Alpha: "a \r\n;=,<>\"\\*", LQ: 5, LT: 6,
		Parsers:  []string{"ParseAllContactValues"},
		Prefixes: []string{""}, Suffixes: []string{"\r\nX"}, Cfgs: capCfgs([]int{-1}, []int{-1, 0, 1, 2})},
	{Name: "token-param", Alpha: "a \r\n;=,\"\\?&@", LQ: 5, LT: 6,
		Parsers:  []string{"ParseTokenParam"},
		Prefixes: []string{""}, Suffixes: []string{"\r\nX"}, Cfgs: tokCfgs([]int{8}), JunkStarts: true},
	{Name: "uri-param-lists", Alpha: "a \r\n;=,\"\\?&@", LQ: 4, LT: 6,
		Parsers:  []string{"ParseAllURIParams", "ParseAllURIHdrs"},
		Prefixes: []string{""}, Suffixes: []string{"\r\nX"}, Cfgs: tokCfgs([]int{0, 1, 2, 8})},
	{Name: "cseq", Alpha: "a1 \t\r\n", LQ: 6, LT: 8,
		Parsers:  []string{"ParseCSeqVal"},
		Prefixes: []string{"", "0000000004", "429496729"}, Suffixes: []string{"\r\nX"}, Cfgs: []Cfg{DefCfg}, JunkStarts: true},
	{Name: "uint", Alpha: "a1 \t\r\n", LQ: 6, LT: 8,
		Parsers:  []string{"ParseUIntVal", "ParseCLenVal", "ParseExpiresVal"},
		Prefixes: []string{"", "1677721", "429496729"}, Suffixes: []string{"\r\nX"}, Cfgs: []Cfg{DefCfg}},
	{Name: "call-id", Alpha: "a \t\r\n", LQ: 7, LT: 9,
		Parsers:  []string{"ParseCallIDVal"},
		Prefixes: []string{""}, Suffixes: []string{"\r\nX"}, Cfgs: []Cfg{DefCfg}, JunkStarts: true},
	{Name: "header-line", Alpha: "a: \t\r\n", LQ: 6, LT: 8,
		Parsers:  []string{"ParseHdrLine"},
		Prefixes: []string{""}, Suffixes: []string{"\r\nX"}, Cfgs: []Cfg{DefCfg}, JunkStarts: true},
	{Name: "header-block", Alpha: "a: \t\r\n", LQ: 6, LT: 8,
		Parsers:  []string{"ParseHeaders"},
		Prefixes: []string{"", "a:a\r\n"}, Suffixes: []string{"\r\n\r\nX"}, Cfgs: capCfgs([]int{0, 1, 2, 8}, []int{-1})},
	{Name: "typed-header-bodies/name-addr", Alpha: "a \r\n;=,<>\"\\*", LQ: 4, LT: 5,
		Parsers:  []string{"ParseHdrLine+PHdrVals", "ParseHeaders+PHdrVals"},
		Prefixes: []string{"f:", "t :", "m:", "P-Asserted-Identity:", "m:<a>,", "f:a\r\nf:"}, Suffixes: []string{"\r\nm:<b>;expires=7\r\n\r\nX"},
		Cfgs: capCfgs([]int{1, 8}, []int{-1, 0, 1})},
	{Name: "typed-header-bodies/numbers", Alpha: "a1 \t\r\n", LQ: 5, LT: 7,
		Parsers:  []string{"ParseHdrLine+PHdrVals", "ParseHeaders+PHdrVals"},
		Prefixes: []string{"CSeq:", "i:", "l:", "Expires:", "Content-Length:1", "l:1677721", "Content-Length: 00000000", "Expires:429496729", "CSeq:429496729"}, Suffixes: []string{"\r\nCSeq: 2 X\r\n\r\nX"},
		Cfgs: capCfgs([]int{0, 8}, []int{-1})},
	{Name: "first-line/request", Alpha: "aS \t\r\n2", LQ: 5, LT: 7,
		Parsers:  []string{"ParseFLine"},
		Prefixes: []string{"", "I a "}, Suffixes: []string{"\r\nXXXXXXXXXXXXXXX"}, Cfgs: []Cfg{DefCfg}, JunkStarts: true},
	{Name: "first-line/reply", Alpha: "20 a\r\n", LQ: 6, LT: 8,
		Parsers:  []string{"ParseFLine"},
		Prefixes: []string{"SIP/2.0 ", "sip/2.0 2"}, Suffixes: []string{"\r\nXXXXXXXXXXXXXXX"}, Cfgs: []Cfg{DefCfg}},
	{Name: "quoted-string", Alpha: "a\"\\\r\n \x01\x7f", LQ: 6, LT: 8,
		Parsers:  []string{"SkipQuoted"},
		Prefixes: []string{""}, Suffixes: []string{"\"X"}, Cfgs: []Cfg{DefCfg}, JunkStarts: true},
	{Name: "message", Alpha: "a: \r\n1", LQ: 4, LT: 6,
		Parsers:  []string{"ParseSIPMsg"},
		Prefixes: []string{"A b c\r\n", "SIP/2.0 200 k\r\nl:2\r\n", "A b c\nl:"}, Suffixes: []string{"\r\n\r\nXYZ"},
		Cfgs: []Cfg{{HdrCap: -1, ContactCap: -1}, {HdrCap: 1, ContactCap: 0, MsgFlags: 1}, {HdrCap: 0, ContactCap: -1, MsgFlags: 2}, {HdrCap: -1, ContactCap: -1, MsgFlags: 3}}},
}

type enumSlot struct {
	fam    *EnumFamily
	p      *ParserDef
	cfg    Cfg
	prefix string
	suffix string
	junk   bool
}

// enumPlan expands one family into slots.
func enumPlan(f *EnumFamily) []enumSlot {
	var out []enumSlot
	for _, pn := range f.Parsers {
		p := ParserByName(pn)
		if p == nil {
			panic("unknown parser " + pn)
		}
		for _, c := range f.Cfgs {
			for _, pre := range f.Prefixes {
				for _, suf := range f.Suffixes {
					out = append(out, enumSlot{f, p, c, pre, suf, false})
					if f.JunkStarts {
						out = append(out, enumSlot{f, p, c, pre, suf, true})
					}
				}
			}
		}
	}
	return out
}

const enumJunk = "a\"<\r"

// freshAll holds the fresh one-shot result for every prefix of one buffer.
type freshAll struct {
	n   []int
	e   []sipsp.ErrorHdr
	pan []bool
}

func (f *freshAll) reset(n int) {
	if cap(f.n) < n+1 {
		f.n = make([]int, n+1)
		f.e = make([]sipsp.ErrorHdr, n+1)
		f.pan = make([]bool, n+1)
	}
	f.n = f.n[:n+1]
	f.e = f.e[:n+1]
	f.pan = f.pan[:n+1]
}

// enumMode selects which property the per-string engine judges.
type enumMode int

const (
	modeResume enumMode = iota // C02 (and C01 for messages)
	modeStable                 // C03
)

type enumScratch struct {
	fa  freshAll
	str []byte
	v0  view.Vec
}

// msgBodyExempt tells whether a definitive ParseSIPMsg result is under the
// C03 exemption (body = rest of buffer).
func msgBodyExempt(o Obj, c Cfg) bool {
	m, ok := o.(*msgObj)
	if !ok {
		return false
	}
	if c.MsgFlags&(sipsp.SIPMsgSkipBodyF|sipsp.SIPMsgCLenReqF) != 0 {
		return false
	}
	return !m.m.PV.CLen.Parsed()
}

// stableCheck is the C03 oracle on one buffer: fresh verdict for every
// prefix; after the first definitive one, every longer prefix must give the
// same verdict, offset and view.
func stableCheck(w *core.Worker, c *Case, from int) (definitiveAt int) {
	return stableCheckAt(w, c, from, nil)
}

// stableCheckAt judges only the listed (ascending) prefix lengths when prefixes != nil.
func stableCheckAt(w *core.Worker, c *Case, from int, prefixes []int) (definitiveAt int) {
	s := sc(w)
	definitiveAt = -1
	if c.P.EndInput(c.Cfg) {
		return
	}
	var e0 sipsp.ErrorHdr
	var n0 int
	var exempt bool
	var op view.MsgOpt
	pi := 0
	for cut := from; cut <= len(c.Buf); cut++ {
		if prefixes != nil {
			if pi >= len(prefixes) {
				break
			}
			cut = prefixes[pi]
			pi++
			if cut < from || cut > len(c.Buf) {
				cut = from - 1
				continue
			}
		}
		F := c.P.New(c.Cfg)
		// hostile slack after len: a verdict that peeks past the prefix is computed from bytes
		// that differ from the real extension
		// ... and every other prefix length is handed over with capacity == length: a verdict
		// must not depend on how much room the caller's slice has either
		pre := s.isoPrefix(c.Buf[:cut], cut)
		if cut&1 == 1 {
			pre = s.exactPrefix(c.Buf[:cut])
		}
		n, e, pan, _ := safeCall(F, pre, c.Start)
		w.Eval(1)
		if pan != "" {
			w.Inc("panicked(left to C04)")
			return
		}
		if definitiveAt < 0 {
			if e == sipsp.ErrHdrMoreBytes {
				continue
			}
			definitiveAt = cut
			e0, n0 = e, n
			exempt = msgBodyExempt(F, c.Cfg) && e == sipsp.ErrHdrOk
			op = view.MsgOpt{NoBodyExtent: exempt}
			if p := viewOf(&s.v3, F, cut, op, false); p != "" {
				return
			}
			continue
		}
		bad := e != e0 || (n != n0 && !exempt)
		var diff string
		if !bad {
			if p := viewOf(&s.v2, F, cut, op, false); p != "" || !view.Equal(&s.v3, &s.v2) {
				bad = true
			}
		}
		if bad {
			d0 := definitiveAt
			w.Fail("premature/"+c.P.Name, func() *core.Violation {
				F0 := c.P.New(c.Cfg)
				safeCall(F0, exactCopy(c.Buf[:d0]), c.Start)
				viewOf(&s.v3, F0, d0, op, true)
				viewOf(&s.v2, F, cut, op, true)
				diff = view.Diff(&s.v3, &s.v2)
				d := c.detail()
				d["definitive_prefix_len"] = d0
				d["extended_prefix_len"] = cut
				return core.V(fmt.Sprintf("%s: on the first %d bytes the verdict is (offs=%d, %s) but on the first %d bytes of the same buffer it is (offs=%d, %s) %s",
					c.P.Name, d0, n0, errName(e0), cut, n, errName(e), diff), c.Buf, d)
			})
			return
		}
	}
	return
}

// runEnumFamily runs one family in the given mode.
func runEnumFamily(r *core.Run, f *EnumFamily, mode enumMode, salt uint64) {
	L := f.LQ
	if !r.Quick() {
		L = f.LT
	}
	es := NewEnum(f.Alpha, L)
	slots := enumPlan(f)
	size := es.Size()
	total := size * int64(len(slots))
	label := "enum/" + f.Name
	st := r.Stage(label, total, func(w *core.Worker, idx int64) {
		sl := &slots[idx/size]
		si := idx % size
		s := sc(w)
		s.buf = s.buf[:0]
		start := 0
		if sl.junk {
			s.buf = append(s.buf, enumJunk...)
			start = len(enumJunk)
		}
		s.buf = append(s.buf, sl.prefix...)
		from := len(s.buf)
		s.buf = es.appendStr(s.buf, si)
		s.buf = append(s.buf, sl.suffix...)
		c := &Case{P: sl.p, Cfg: sl.cfg, Buf: s.buf, Start: start}
		if si == size/2 && w.WantSample(label) {
			w.Sample(label, map[string]any{"parser": sl.p.Name, "input": core.Esc(c.Buf), "start": start, "tok_flags": uint(sl.cfg.Flags),
				"hdr_cap": sl.cfg.HdrCap, "contact_cap": sl.cfg.ContactCap, "param_cap": sl.cfg.ParamCap, "msg_flags": sl.cfg.MsgFlags})
		}
		switch mode {
		case modeResume:
			nt := false
			// every prefix through the enumerated part and a few bytes into the
			// (constant) suffix, then the whole buffer
			hi := from + (len(c.Buf) - from - len(sl.suffix)) + 4
			if hi > len(c.Buf) {
				hi = len(c.Buf)
			}
			s.cuts = CutsEveryPrefix(s.cuts, from, hi)
			if hi < len(c.Buf) {
				s.cuts = append(s.cuts, len(c.Buf))
			}
			if start < from {
				// first cut somewhere inside the fixed prefix as well
				s.cuts = append([]int{start + (from-start)/2}, s.cuts...)
			}
			res := CheckResume(w, c, s.cuts, view.MsgOpt{})
			nt = res.Suspended > 0 && res.Definite
			if !res.Bad {
				for cut := from; cut < hi; cut++ {
					s.cuts = CutsSingle(s.cuts, cut, len(c.Buf))
					res = CheckResume(w, c, s.cuts, view.MsgOpt{})
					if res.Bad {
						break
					}
				}
			}
			if nt {
				w.NontrivialEnum()
				w.Inc("nontrivial_cases")
			}
		case modeStable:
			d := stableCheck(w, c, from)
			if d >= 0 && d < len(c.Buf) {
				w.NontrivialEnum()
				w.Inc("nontrivial_cases")
			}
		}
	})
	st.Exhaustive = true
	st.Space = fmt.Sprintf("%s; wrapped as prefix∈%q + s + suffix∈%q; parsers %v; %d configurations; junk-prefixed start offsets: %v",
		es.Desc(), f.Prefixes, f.Suffixes, f.Parsers, len(f.Cfgs), f.JunkStarts)
}

// appendStr appends string number idx to dst.
func (e *EnumSpace) appendStr(dst []byte, idx int64) []byte {
	l := 0
	for l < e.L && idx >= e.cum[l+1] {
		l++
	}
	idx -= e.cum[l]
	k := int64(len(e.Alpha))
	for i := 0; i < l; i++ {
		dst = append(dst, e.Alpha[idx%k])
		idx /= k
	}
	return dst
}
