package mon

import (
	"bytes"
	"encoding/json"
	"fmt"
	"os"
	"os/exec"
	"path/filepath"
	"runtime/debug"
	"strings"
	"sync"

	"github.com/intuitivelabs/sipsp"

	"verif/harness/core"
	"verif/harness/gen"
	"verif/harness/view"
)

// safetyDrive drives one object along a schedule and applies the C04 net
// after EVERY call (also more-bytes and error returns).
func safetyDrive(w *core.Worker, c *Case, cuts []int) {
	s := sc(w)
	R := c.P.New(c.Cfg)
	o := c.Start
	for _, cut := range cuts {
		if cut < c.Start {
			continue
		}
		// exact-capacity private copy: re-slicing or indexing past len panics instead of
		// quietly reading the continuation
		n, e, pan, stk := safeCall(R, s.exactPrefix(c.Buf[:cut]), o)
		w.Eval(1)
		if pan != "" {
			cutc := cut
			w.Fail("panic/"+c.P.Name, func() *core.Violation {
				d := c.detail()
				d["prefix_len"] = cutc
				d["offs_in"] = o
				v := core.V(fmt.Sprintf("%s panicked: %s", c.P.Name, pan), c.Buf, d)
				v.Stack = stk
				return v
			})
			return
		}
		if msg := Safety(R, c.Buf[:cut], o, n, e, &s.v1); msg != "" {
			cutc, oin := cut, o
			w.Fail("unsafe/"+c.P.Name, func() *core.Violation {
				d := c.detail()
				d["prefix_len"] = cutc
				d["offs_in"] = oin
				return core.V(fmt.Sprintf("%s(buf[:%d], offs=%d) -> (offs=%d, %s): %s", c.P.Name, cutc, oin, n, errName(e), msg), c.Buf, d)
			})
			return
		}
		if e != sipsp.ErrHdrMoreBytes {
			w.Inc("verdict/" + errName(e))
			return
		}
		o = n
	}
}

// guardFn runs one non-incremental exported function under the net.
func guardFn(w *core.Worker, name string, in []byte, fn func() string) {
	var msg string
	pan, pmsg, stk := core.Guard(func() { msg = fn() })
	w.Eval(1)
	if pan {
		w.Fail("panic/"+name, func() *core.Violation {
			v := core.V(fmt.Sprintf("%s panicked: %s", name, pmsg), in, map[string]any{"function": name})
			v.Stack = stk
			return v
		})
		return
	}
	if msg != "" {
		w.Fail("unsafe/"+name, func() *core.Violation {
			return core.V(fmt.Sprintf("%s: %s", name, msg), in, map[string]any{"function": name})
		})
	}
}

func inRange(what string, o, n int) string {
	if o < 0 || o > n {
		return fmt.Sprintf("%s %d outside [0,%d]", what, o, n)
	}
	return ""
}

// uriSurface exercises ParseURI and everything hanging off a parsed URI.
func uriSurface(w *core.Worker, rr *core.Rand, in []byte) {
	var u sipsp.PsipURI
	var perr sipsp.ErrorURI
	guardFn(w, "ParseURI", in, func() string {
		e, o := sipsp.ParseURI(in, &u)
		perr = e
		_ = e.Error()
		if m := inRange("error/consumed offset", o, len(in)); m != "" {
			return m
		}
		var v view.Vec
		v.Reset(len(in))
		v.Lab = true
		view.URI(&v, &u)
		if v.OOB != "" {
			return "field cannot be dereferenced: " + v.OOB
		}
		return ""
	})
	if perr != sipsp.NoURIErr {
		return
	}
	w.Inc("uri_accepted")
	guardFn(w, "PsipURI.Short/Long/Flat", in, func() string {
		s, l := u.Short(), u.Long()
		if int(s.Offs)+int(s.Len) > len(in) || int(l.Offs)+int(l.Len) > len(in) {
			return fmt.Sprintf("Short()=%v / Long()=%v beyond the buffer (%d)", s, l, len(in))
		}
		_ = u.Flat(in)
		_ = u.URIType.String()
		return ""
	})
	// relocation: every span length 0..len+2 at a few targets
	for _, t := range []int{0, 1, rr.Intn(300), 65535 - len(in) - 2, 65535 - len(in), 65535 - len(in) + 1, 65535 - len(in)/2, 65533} {
		if t < 0 {
			continue
		}
		for span := 0; span <= len(in)+2; span++ {
			if t+span > 65535 {
				break
			}
			cp := u
			tt, sp := t, span
			guardFn(w, "PsipURI.AdjustOffs", in, func() string {
				ok := cp.AdjustOffs(sipsp.PField{Offs: sipsp.OffsT(tt), Len: sipsp.OffsT(sp)})
				if ok {
					end := tt + sp
					for _, f := range []sipsp.PField{cp.Scheme, cp.User, cp.Pass, cp.Host, cp.Port, cp.Params, cp.Headers} {
						if int(f.Offs)+int(f.Len) > end && (f.Offs != 0 || f.Len != 0) {
							return fmt.Sprintf("AdjustOffs({%d,%d}) succeeded but a component %v lies outside the target span", tt, sp, f)
						}
					}
				}
				return ""
			})
		}
	}
	cp := u
	guardFn(w, "PsipURI.Truncate/Reset", in, func() string { cp.Truncate(); _ = cp.Long(); cp.Reset(); return "" })
}

var dirtyURI = []byte("sips:" + strings.Repeat("u", 300) + ":" + strings.Repeat("p", 200) + "@" + strings.Repeat("h", 300) + ":5099;ttl=3;maddr=h;user=phone;method=X;transport=tcp;lr?old=1&older=2")

// cmpSurface exercises the comparison entry points on two byte strings.
func cmpSurface(w *core.Worker, rr *core.Rand, a, b []byte) {
	fl := sipsp.URICmpFlags(rr.Intn(64))
	guardFn(w, "URIRawCmp", a, func() string {
		_, e, k := sipsp.URIRawCmp(a, b, fl)
		_ = e.Error()
		if k != 0 && k != 1 {
			return fmt.Sprintf("failing-URI index %d", k)
		}
		return ""
	})
	guardFn(w, "URIParseCmp", a, func() string {
		var r1, r2 sipsp.PsipURI
		if rr.Bool() {
			// r1/r2 are outputs only: whatever an earlier, longer URI left in them (every
			// component set, far beyond the end of a and b) must not matter
			sipsp.ParseURI(dirtyURI, &r1)
			sipsp.ParseURI(dirtyURI, &r2)
		}
		_, perr, _ := sipsp.URIParseCmp(a, b, fl, &r1, &r2)
		for _, u := range []*sipsp.PsipURI{&r1, &r2} {
			if perr != 0 {
				break // after an error the outputs are unspecified
			}
			for _, f := range []sipsp.PField{u.Scheme, u.User, u.Pass, u.Host, u.Port, u.Params, u.Headers} {
				if lim := len(a) + len(b); int(f.Offs)+int(f.Len) > lim {
					return fmt.Sprintf("URIParseCmp handed back a URI with field %v beyond both inputs (len %d, %d)", f, len(a), len(b))
				}
			}
		}
		_, _, _ = sipsp.URIParseCmp(a, b, fl, nil, &r2)
		return ""
	})
	var u1, u2 sipsp.PsipURI
	e1, _ := sipsp.ParseURI(a, &u1)
	e2, _ := sipsp.ParseURI(b, &u2)
	if e1 == 0 && e2 == 0 {
		guardFn(w, "URICmp/URICmpShort", a, func() string {
			sipsp.URICmp(&u1, a, &u2, b, fl)
			sipsp.URICmpShort(&u1, a, &u2, b, fl)
			return ""
		})
	}
	o1, o2 := rr.Intn(len(a)+1), rr.Intn(len(b)+1)
	guardFn(w, "URIParamsEq", a, func() string { _, e := sipsp.URIParamsEq(a, o1, b, o2); _ = e.Error(); return "" })
	guardFn(w, "URIHdrsEq", a, func() string { _, e := sipsp.URIHdrsEq(a, o1, b, o2); _ = e.Error(); return "" })
	guardFn(w, "URIParamsLstEq/URIHdrsLstEq", a, func() string {
		var l1, l2 sipsp.URIParamsLst
		c1, c2 := rr.Intn(4), rr.Intn(4)
		l1.Init(make([]sipsp.URIParam, c1))
		l2.Init(make([]sipsp.URIParam, c2))
		sipsp.ParseAllURIParams(a, o1, &l1, sipsp.POptTokURIParamF|sipsp.POptInputEndF)
		sipsp.ParseAllURIParams(b, o2, &l2, sipsp.POptTokURIParamF|sipsp.POptInputEndF)
		sipsp.URIParamsLstEq(&l1, a, &l2, b)
		var h1, h2 sipsp.URIHdrsLst
		h1.Init(make([]sipsp.URIHdr, c1))
		h2.Init(make([]sipsp.URIHdr, c2))
		sipsp.ParseAllURIHdrs(a, o1, &h1, sipsp.POptTokURIHdrF|sipsp.POptInputEndF)
		sipsp.ParseAllURIHdrs(b, o2, &h2, sipsp.POptTokURIHdrF|sipsp.POptInputEndF)
		sipsp.URIHdrsLstEq(&h1, a, &h2, b)
		return ""
	})
}

// miscSurface exercises lookups, IP functions and string signatures.
func miscSurface(w *core.Worker, rr *core.Rand, in []byte) {
	guardFn(w, "GetHdrType", in, func() string { _ = sipsp.GetHdrType(in).String(); return "" })
	guardFn(w, "GetMethodNo", in, func() string {
		m := sipsp.GetMethodNo(in)
		_ = m.Name()
		_ = m.String()
		return ""
	})
	guardFn(w, "URIParamResolve", in, func() string { sipsp.URIParamResolve(in); return "" })
	// destination sizes: none, too small for IPv4, exact IPv4, exact IPv6, and two drawn from 1..20
	// (a destination between the two address sizes must be left alone, not half-filled)
	for _, dl := range []int{0, 3, 4, 16, 1 + rr.Intn(20), 8 + rr.Intn(8)} {
		dst := make([]byte, dl)
		var dnil []byte
		if dl == 0 {
			dst = dnil
		}
		guardFn(w, "IP4Prefix", in, func() string {
			_, o, e := sipsp.IP4Prefix(in, dst)
			_ = e.Error()
			return inRange("stop offset", o, len(in))
		})
		guardFn(w, "ContainsIP4", in, func() string {
			ok, o, l := sipsp.ContainsIP4(in, dst)
			if ok && (o < 0 || l < 0 || o+l > len(in)) {
				return fmt.Sprintf("reported span (%d,%d) outside the text (%d)", o, l, len(in))
			}
			return ""
		})
		guardFn(w, "IP6Prefix", in, func() string {
			_, o, e := sipsp.IP6Prefix(in, dst)
			_ = e.Error()
			return inRange("stop offset", o, len(in))
		})
		guardFn(w, "ContainsIP6", in, func() string {
			ok, o, l := sipsp.ContainsIP6(in, dst)
			if ok && (o < 0 || l < 0 || o+l > len(in)) {
				return fmt.Sprintf("reported span (%d,%d) outside the text (%d)", o, l, len(in))
			}
			return ""
		})
	}
	guardFn(w, "GetCallIDSig", in, func() string { sipsp.GetCallIDSig(in); return "" })
	guardFn(w, "GetViaBrSig", in, func() string { sipsp.GetViaBrSig(in); return "" })
}

// sigSurface parses a message (one-shot or chunked) and asks for its signature.
func sigSurface(w *core.Worker, rr *core.Rand, in []byte) {
	var m sipsp.PSIPMsg
	hc := []int{-1, 0, 1, 2, 5, 30}[rr.Intn(6)]
	flags := uint8(rr.Intn(8))
	guardFn(w, "ParseSIPMsg+GetMsgSig", in, func() string {
		m.Init(in, mkHdrs(hc), mkContacts([]int{-1, 0, 1}[rr.Intn(3)]))
		o := 0
		cut := rr.Intn(len(in) + 1)
		var e sipsp.ErrorHdr
		o, e = sipsp.ParseSIPMsg(in[:cut], o, &m, flags)
		if e == sipsp.ErrHdrMoreBytes {
			o, e = sipsp.ParseSIPMsg(in, o, &m, flags)
		}
		if m := inRange("offset", o, len(in)); m != "" {
			return m
		}
		if !m.Parsed() {
			// failed / incomplete: Buf is what Init was given (documented way)
			m.Buf = in
		}
		sig, se := sipsp.GetMsgSig(&m)
		_ = se.Error()
		if sig.HdrSigLen < 0 || sig.HdrSigLen > len(sig.HdrSig) {
			return fmt.Sprintf("HdrSigLen %d out of range", sig.HdrSigLen)
		}
		_ = sig.String()
		for _, h := range m.HL.Hdrs {
			sipsp.GetHdrSigId(h)
		}
		return ""
	})
}

// reuseHistory drives parse / abandon / Reset|Init / parse on caller arrays.
func reuseHistory(w *core.Worker, rr *core.Rand, corpus [][]byte) {
	s := sc(w)
	p := ParserByName([]string{"ParseSIPMsg", "ParseHdrLine+PHdrVals", "ParseHeaders+PHdrVals", "ParseAllContactValues", "ParseAllURIParams", "ParseAllURIHdrs"}[rr.Intn(6)])
	cfg := Cfg{HdrCap: []int{-1, 0, 1, 3, 12}[rr.Intn(5)], ContactCap: []int{-1, 0, 1, 2, 5}[rr.Intn(5)], ParamCap: rr.Intn(4), MsgFlags: uint8(rr.Intn(8))}
	if p.Group == "tok" {
		cfg.Flags = TokFlagSets[rr.Intn(len(TokFlagSets))]
	}
	R := p.New(cfg)
	steps := rr.Range(2, 6)
	for st := 0; st < steps; st++ {
		var in []byte
		switch {
		case p.Group == "tok":
			in = gen.ParamList(rr, gen.PLOptsFor(cfg.Flags, rr)).Raw
		case p.Name == "ParseAllContactValues":
			in, _ = gen.NameAddrValue(rr, rr.Range(1, 5), false, false)
		default:
			if rr.Intn(2) == 0 {
				in = gen.Msg(rr, gen.MsgOpts{MinHdrs: 1, MaxHdrs: 8, MultiNA: 60, Kinds: []int{gen.HContact, gen.HContact, gen.HPAI, gen.HFrom, gen.HTo, gen.HCSeq, gen.HVia, gen.HOtherKind}}).Raw
			} else {
				in = gen.Mutate(rr, corpus[rr.Intn(len(corpus))], 3)
			}
			if !p.IsMsg {
				if i := bytes.IndexByte(in, '\n'); i >= 0 {
					in = in[i+1:]
				}
			}
		}
		abandon := len(in)
		if rr.Intn(2) == 0 {
			abandon = rr.Intn(len(in) + 1)
		}
		c := &Case{P: p, Cfg: cfg, Buf: in}
		o := 0
		cutsN := rr.Range(0, 3)
		s.cuts = CutsRandom(s.cuts, rr, 0, abandon, cutsN)
		for _, cut := range s.cuts {
			n, e, pan, stk := safeCall(R, in[:cut], o)
			w.Eval(1)
			if pan != "" {
				stc := st
				w.Fail("panic-reused-object/"+p.Name, func() *core.Violation {
					d := c.detail()
					d["history_step"] = stc
					v := core.V(fmt.Sprintf("%s panicked on a re-used (reset) object at history step %d: %s", p.Name, stc, pan), in, d)
					v.Stack = stk
					return v
				})
				return
			}
			if msg := Safety(R, in[:cut], o, n, e, &s.v1); msg != "" {
				stc := st
				w.Fail("unsafe-reused-object/"+p.Name, func() *core.Violation {
					d := c.detail()
					d["history_step"] = stc
					return core.V(fmt.Sprintf("%s on a re-used object (history step %d): %s", p.Name, stc, msg), in, d)
				})
				return
			}
			if e != sipsp.ErrHdrMoreBytes {
				break
			}
			o = n
		}
		pan, pmsg, stk := core.Guard(func() {
			if mo, ok := R.(*msgObj); ok && rr.Intn(3) == 0 {
				mo.m.Init(nil, mo.m.HL.Hdrs, mo.m.PV.Contacts.Vals)
			} else {
				R.Reset()
			}
		})
		if pan {
			w.Fail("panic-reset/"+p.Name, func() *core.Violation {
				v := core.V(fmt.Sprintf("Reset/Init of %s object panicked: %s", p.Name, pmsg), in, c.detail())
				v.Stack = stk
				return v
			})
			return
		}
	}
	w.Inc("histories")
}

// RunC04 is the monitor for C04.
func RunC04(r *core.Run) {
	r.Rule = "case = one exported call (or one chunk-driven object) on hostile bytes; after EVERY call: no panic, returned offset inside the buffer and not before the start offset unless the verdict is an error, every exported field (including the in-progress slot) dereferenceable; plus reuse histories, exhaustive short lookups, relocation with every span length, and the isolation stage (race detector + concurrent-vs-sequential comparison). Non-trivial = the call sequence reached a definitive verdict or an accepted URI / produced a comparison result; distinct by input hash"
	r.Assume = []string{"a worker stuck on one case for 25 s is a hang suspect, confirmed by a 90 s single-case replay in a fresh process", "PField.Set / GetPField panics on caller-supplied inverted ranges are the documented contract and not exercised directly"}
	corpus := loadCorpus()
	// A: parser table under hostile bytes
	nA := r.Pick(1500000, 30000000)
	r.Stage("sweep/parsers", nA, func(w *core.Worker, idx int64) {
		rr := core.NewRand(r.Seed, 0xC04, 1, uint64(idx))
		p := Parsers[rr.Intn(len(Parsers))]
		cfg := randCfg(rr, p)
		if p.Group == "tok" && rr.Intn(2) == 0 {
			cfg.Flags = sipsp.POptFlags(idx % 256)
		}
		var in []byte
		switch rr.Intn(4) {
		case 0:
			in = gen.Bytes(rr, 120)
		case 1:
			in = gen.Mutate(rr, corpus[rr.Intn(len(corpus))], 4)
		case 2:
			in = longValue(rr, p, &cfg)
			in = gen.Mutate(rr, in, 2)
		default:
			in = rr.Bytes(rr.Intn(24), gen.Hostile)
		}
		start := 0
		if rr.Intn(2) == 0 {
			start = rr.Intn(len(in) + 1)
		}
		c := &Case{P: p, Cfg: cfg, Buf: in, Start: start}
		s := sc(w)
		if len(in)-start <= 80 {
			s.cuts = CutsEveryPrefix(s.cuts, start, len(in))
			safetyDrive(w, c, s.cuts)
		}
		s.cuts = CutsRandom(s.cuts, rr, start, len(in), rr.Range(0, 8))
		safetyDrive(w, c, s.cuts)
		s.cuts = append(s.cuts[:0], len(in))
		safetyDrive(w, c, s.cuts)
		w.Nontrivial(core.HashBytes(in) ^ core.HashStr(p.Name) ^ uint64(start)<<40)
		if w.WantSample("sweep/parsers") {
			w.Sample("sweep/parsers", map[string]any{"parser": p.Name, "input": core.Esc(in), "start": start, "tok_flags": uint(cfg.Flags)})
		}
	})
	// A2: enumerated hostile strings through every parser, all start offsets
	esA := NewEnum("a1 \r\n;=,<>\"\\:*@?", int(r.Pick(3, 4)))
	stA := r.Stage("sweep/parsers-enum", esA.Size()*int64(len(Parsers)), func(w *core.Worker, idx int64) {
		p := Parsers[idx%int64(len(Parsers))]
		s := sc(w)
		s.buf = esA.appendStr(s.buf[:0], idx/int64(len(Parsers)))
		s.buf = append(s.buf, "\r\nX"...)
		cfg := Cfg{HdrCap: int(idx%3) - 1, ContactCap: int(idx/3%3) - 1, ParamCap: int(idx % 2), Flags: sipsp.POptFlags((idx / 7) % 256), MsgFlags: uint8(idx % 8)}
		for start := 0; start <= len(s.buf); start++ {
			c := &Case{P: p, Cfg: cfg, Buf: s.buf, Start: start}
			s.cuts = CutsEveryPrefix(s.cuts, start, len(s.buf))
			safetyDrive(w, c, s.cuts)
		}
		w.NontrivialEnum()
	})
	stA.Exhaustive = true
	stA.Space = esA.Desc() + " + CRLF X, through every table parser, every start offset 0..len, S1"
	// B: non-incremental surface
	nB := r.Pick(600000, 10000000)
	r.Stage("sweep/functions", nB, func(w *core.Worker, idx int64) {
		rr := core.NewRand(r.Seed, 0xC04, 2, uint64(idx))
		var a, b []byte
		switch rr.Intn(5) {
		case 0:
			a = gen.Bytes(rr, 60)
		case 1:
			a = append([]byte([]string{"sip:", "sips:", "tel:", "SIP:", "sIpS:"}[rr.Intn(5)]), rr.Bytes(rr.Intn(20), []byte(":@;?&=[].a1%+-"))...)
		case 2:
			a = gen.Mutate(rr, []byte(gen.URI(rr).String()), 3)
		case 3:
			a = []byte(gen.URI(rr).String())
		default:
			a = rr.Bytes(rr.Intn(30), []byte("0123456789.:abcdefx[]@-"))
		}
		if rr.Intn(2) == 0 {
			b = gen.Mutate(rr, a, 2)
		} else {
			b = []byte(gen.URI(rr).String())
		}
		uriSurface(w, rr, a)
		cmpSurface(w, rr, a, b)
		miscSurface(w, rr, a)
		w.Nontrivial(core.HashBytes(a) ^ core.HashBytes(b)<<1)
		if w.WantSample("sweep/functions") {
			w.Sample("sweep/functions", map[string]any{"a": core.Esc(a), "b": core.Esc(b)})
		}
	})
	// B1b: IPv6-shaped texts (groups of 0-4 hex digits joined by ':' / '::', up to 14 groups, brackets, junk around)
	r.Stage("sweep/ipv6-shapes", r.Pick(300000, 6000000), func(w *core.Worker, idx int64) {
		rr := core.NewRand(r.Seed, 0xC04, 5, uint64(idx))
		var b []byte
		b = append(b, []string{"", "", "x", "[", "a@", "1.2.3.4-"}[rr.Intn(6)]...)
		ng := rr.Range(1, 14)
		for i := 0; i < ng; i++ {
			if i > 0 {
				b = append(b, []string{":", ":", ":", "::", ":::"}[rr.Intn(5)]...)
			} else if rr.Intn(4) == 0 {
				b = append(b, "::"...)
			}
			b = append(b, rr.Bytes(rr.Intn(6), []byte("0123456789abcdefABCDEF"))...)
		}
		b = append(b, []string{"", "", "]", "]:5060", "%eth0", ":", "::", "@h", ".1.2.3"}[rr.Intn(9)]...)
		miscSurface(w, rr, b)
		if rr.Intn(4) == 0 {
			m := append([]byte("INVITE sip:a SIP/2.0\r\nCall-ID: "), b...)
			m = append(m, "\r\nCSeq: 1 INVITE\r\n\r\n"...)
			sigSurface(w, rr, m)
		}
		w.Nontrivial(core.HashBytes(b))
	})
	// B1c: boundary numbers in every numeric position of messages and URIs
	nums := gen.NumStrings(core.NewRand(r.Seed, 0xC04, 6), int(r.Pick(500, 20000)))
	r.Stage("sweep/boundary-numbers", int64(len(nums)), func(w *core.Worker, idx int64) {
		rr := core.NewRand(r.Seed, 0xC04, 6, uint64(idx))
		n := nums[idx]
		for _, tmpl := range []string{
			"INVITE sip:a SIP/2.0\r\nContent-Length: %s\r\n\r\nbody",
			"INVITE sip:a SIP/2.0\r\nl:%s\r\nCSeq: %s INVITE\r\nExpires: %s\r\n\r\n",
			"SIP/2.0 200 OK\r\nContact: <sip:a:%s@h:%s>;expires=%s;q=%s\r\nm: <sip:b>;q=0.%s\r\n\r\nxyz",
			"REGISTER sip:r:%s SIP/2.0\r\nMax-Forwards: %s\r\nVia: SIP/2.0/UDP h:%s;ttl=%s;branch=z9hG4bK%s\r\nCall-ID: %s@%s.%s.%s.%s\r\n\r\n"} {
			m := []byte(strings.ReplaceAll(tmpl, "%s", n))
			for flags := uint8(0); flags < 8; flags++ {
				c := &Case{P: Parsers[0], Cfg: Cfg{HdrCap: -1, ContactCap: -1, MsgFlags: flags}, Buf: m}
				s := sc(w)
				s.cuts = append(s.cuts[:0], len(m))
				safetyDrive(w, c, s.cuts)
				s.cuts = CutsRandom(s.cuts, rr, 0, len(m), 3)
				safetyDrive(w, c, s.cuts)
			}
			sigSurface(w, rr, m)
		}
		for _, tmpl := range []string{"sip:h:%s", "sip:%s:%s@[::%s]:%s;ttl=%s?x=%s", "tel:%s:%s", "sips:%s@%s.%s.%s.%s:%s"} {
			uriSurface(w, rr, []byte(strings.ReplaceAll(tmpl, "%s", n)))
		}
		miscSurface(w, rr, []byte(n+"."+n+"."+n+"."+n))
		w.NontrivialEnum()
	})
	// B2: signatures on parsed and failed messages
	r.Stage("sweep/signatures", r.Pick(400000, 6000000), func(w *core.Worker, idx int64) {
		rr := core.NewRand(r.Seed, 0xC04, 3, uint64(idx))
		var in []byte
		switch rr.Intn(3) {
		case 0:
			in = gen.Msg(rr, gen.MsgOpts{MinHdrs: 1, MaxHdrs: 25, MultiNA: 30, DupParams: true}).Raw
		case 1:
			in = gen.Mutate(rr, corpus[rr.Intn(len(corpus))], 4)
		default:
			in = gen.Bytes(rr, 200)
		}
		sigSurface(w, rr, in)
		w.Nontrivial(core.HashBytes(in))
	})
	// C: lookups, exhaustively for short names
	stC := r.Stage("lookups/len0-2-all-bytes+len3-ascii", 1+256+65536+128*128*128, func(w *core.Worker, idx int64) {
		var nm []byte
		switch {
		case idx == 0:
		case idx < 257:
			nm = []byte{byte(idx - 1)}
		case idx < 257+65536:
			x := idx - 257
			nm = []byte{byte(x >> 8), byte(x)}
		default:
			x := idx - 257 - 65536
			nm = []byte{byte(x >> 14), byte(x >> 7 & 127), byte(x & 127)}
		}
		guardFn(w, "GetHdrType", nm, func() string { sipsp.GetHdrType(nm); return "" })
		guardFn(w, "GetMethodNo", nm, func() string { sipsp.GetMethodNo(nm); return "" })
		if idx == 0 {
			guardFn(w, "GetHdrType(nil)", nil, func() string { sipsp.GetHdrType(nil); sipsp.GetMethodNo(nil); sipsp.URIParamResolve(nil); return "" })
		}
		if idx < 300 {
			guardFn(w, "SIPMethod.Name", nil, func() string {
				m := sipsp.SIPMethod(idx)
				_ = m.Name()
				_ = m.String()
				_ = sipsp.HdrT(idx).String()
				_ = sipsp.URIScheme(int8(idx)).String()
				if idx < 18 {
					_ = sipsp.ErrorHdr(idx).Error()
					_ = sipsp.ErrorHdr(idx).ErrorConv()
				}
				return ""
			})
		}
		w.NontrivialEnum()
	})
	stC.Exhaustive = true
	stC.Space = "every name of length 0..2 over all 256 byte values and of length 3 over 7-bit ASCII, for GetHdrType and GetMethodNo; SIPMethod/HdrT/URIScheme values 0..299"
	// D: reuse histories on caller arrays
	r.Stage("reuse-histories", r.Pick(500000, 10000000), func(w *core.Worker, idx int64) {
		rr := core.NewRand(r.Seed, 0xC04, 4, uint64(idx))
		reuseHistory(w, rr, corpus)
		w.Nontrivial(uint64(idx)*0x9E3779B97F4A7C15 ^ r.Seed)
	})
	// C2: small exported helpers that take an enumeration value: every value of the underlying type
	stE := r.Stage("helpers/enum-arguments", 65536, func(w *core.Worker, idx int64) {
		v := int(idx)
		var hl sipsp.HdrLst
		hl.Hdrs = make([]sipsp.Hdr, 2)
		guardFn(w, "HdrLst.GetHdr/SetHdr", nil, func() string {
			hl.GetHdr(sipsp.HdrT(v))
			h := sipsp.Hdr{Type: sipsp.HdrT(v)}
			hl.SetHdr(&h)
			hl.GetHdr(sipsp.HdrT(v))
			return ""
		})
		guardFn(w, "HdrFlags.*", nil, func() string {
			var f sipsp.HdrFlags
			t := sipsp.HdrT(v)
			f.Set(t)
			set := f.Test(t)
			if f.Any(t) != set || f.AllSet(t) != set {
				return fmt.Sprintf("HdrFlags: Set(%d) then Test=%v Any=%v AllSet=%v", v, set, f.Any(t), f.AllSet(t))
			}
			f.Clear(t)
			if f.Test(t) || f.Any(t, t) {
				return fmt.Sprintf("HdrFlags: Clear(%d) left the flag set", v)
			}
			f.Set(t)
			f.Reset()
			if f != 0 {
				return "HdrFlags.Reset left flags"
			}
			return ""
		})
		guardFn(w, "String()/Error()/Name() of enumeration values", nil, func() string {
			_ = sipsp.HdrT(v).String()
			// Error() of the two error types indexes a table without a range check; only values the
			// library itself defines are in scope (ErrorHdr(200).Error() panics, but no exported
			// function returns such a value - that is checked by every monitor through errName)
			if v <= int(sipsp.ErrHdrTooManyVals) {
				e := sipsp.ErrorHdr(v)
				if ec := e.ErrorConv(); (v == 0 && ec != nil) || (v != 0 && (ec == nil || ec.Error() != e.Error())) {
					return fmt.Sprintf("ErrorHdr(%d) (%q).ErrorConv() = %v", v, e.Error(), ec)
				}
			}
			_ = sipsp.ErrorHdr(v).ErrorConv()
			if v <= int(sipsp.ErrURIBug) {
				_ = sipsp.ErrorURI(v).Error()
			}
			_ = sipsp.SIPMethod(v).Name()
			_ = sipsp.SIPMethod(v).String()
			_ = sipsp.URIScheme(v).String()
			sipsp.GetHdrSigId(sipsp.Hdr{Type: sipsp.HdrT(v)})
			return ""
		})
		if v < 64 {
			guardFn(w, "accessors of empty objects", nil, func() string {
				var c sipsp.PContacts
				var p sipsp.PPAIs
				var pv sipsp.PHdrVals
				var ul sipsp.URIParamsLst
				var uh sipsp.URIHdrsLst
				p.Init()
				pv.Init(nil)
				if c.GetContact(v) != nil || p.GetPAI(v) != nil {
					return "GetContact/GetPAI on an empty list returned a value"
				}
				_, _, _, _ = c.VNo(), c.More(), c.Empty(), c.Parsed()
				_, _, _ = ul.PNo(), ul.More(), ul.Empty()
				_, _, _ = uh.HNo(), uh.More(), uh.Empty()
				pv.GetFrom()
				pv.GetTo()
				pv.GetCSeq()
				pv.GetCallID()
				pv.GetCLen()
				pv.GetContacts()
				pv.GetExpires()
				pv.GetPAIs()
				pv.MaxExpires()
				return ""
			})
		}
		w.NontrivialEnum()
	})
	stE.Exhaustive = true
	stE.Space = "every 16-bit value as HdrT / ErrorHdr / ErrorURI / SIPMethod / URIScheme argument of GetHdr, SetHdr, HdrFlags.{Set,Test,Any,AllSet,Clear,Reset}, String/Error/Name, GetHdrSigId; the accessors of empty list objects for indices 0..63"
	// D2: isolation between objects that used the same caller arrays one after the other: once an
	// object has been given other arrays (Init), the old ones belong to the caller again
	r.Stage("isolation/recycled-arrays", r.Pick(60000, 3000000), func(w *core.Worker, idx int64) {
		rr := core.NewRand(r.Seed, 0xC04, 9, uint64(idx))
		A := gen.Msg(rr, gen.MsgOpts{MinHdrs: 3, MaxHdrs: 14, MultiNA: 60}).Raw
		B := gen.Msg(rr, gen.MsgOpts{MinHdrs: 3, MaxHdrs: 14, MultiNA: 60}).Raw
		C := gen.Msg(rr, gen.MsgOpts{MinHdrs: 3, MaxHdrs: 14, MultiNA: 60}).Raw
		hdrs := mkHdrs([]int{1, 4, 12, 30}[rr.Intn(4)])
		cts := mkContacts([]int{0, 2, 5}[rr.Intn(3)])
		flags := uint8(rr.Intn(4))
		s := sc(w)
		var m1, m2 sipsp.PSIPMsg
		var what string
		pan, pmsg, stk := core.Guard(func() {
			m1.Init(nil, hdrs, cts)
			sipsp.ParseSIPMsg(A[:rr.Intn(len(A)+1)], 0, &m1, flags)
			switch rr.Intn(3) {
			case 0:
				m1.Init(nil, nil, nil) // back to the built-in arrays
			case 1:
				m1.Init(nil, mkHdrs(6), mkContacts(3))
			default:
				m1.Init(nil, nil, mkContacts(1))
				// (the header array was NOT given back in this variant)
				hdrs = mkHdrs(len(hdrs))
			}
			sipsp.ParseSIPMsg(B, 0, &m1, flags)
			s.v1.Reset(len(B))
			view.Msg(&s.v1, &m1, view.MsgOpt{Opt: view.Opt{Deep: true}})
			// the caller empties its arrays (Init wants empty ones) and hands them to another
			// object working on another buffer
			for i := range hdrs[:cap(hdrs)] {
				hdrs[:cap(hdrs)][i] = sipsp.Hdr{}
			}
			for i := range cts[:cap(cts)] {
				cts[:cap(cts)][i] = sipsp.PFromBody{}
			}
			m2.Init(nil, hdrs, cts)
			sipsp.ParseSIPMsg(C, 0, &m2, flags)
			s.v2.Reset(len(B))
			view.Msg(&s.v2, &m1, view.MsgOpt{Opt: view.Opt{Deep: true}})
			if !view.Equal(&s.v1, &s.v2) {
				s.v1.Reset(len(B))
				s.v1.Lab = true
				view.Msg(&s.v1, &m1, view.MsgOpt{Opt: view.Opt{Deep: true}})
				what = "what the first object reports changed: now " + view.Diff(&s.v2, &s.v1)
			}
		})
		w.Eval(3)
		if pan || what != "" {
			w.Fail("isolation/recycled-arrays", func() *core.Violation {
				v := core.V("object 1 was re-initialised with other arrays and parsed message B; then object 2 was initialised with object 1's former arrays and parsed message C: "+what+pmsg, B,
					map[string]any{"first_message": core.Esc(A), "third_message": core.Esc(C), "hdr_cap": len(hdrs), "contact_cap": len(cts)})
				v.Stack = stk
				return v
			})
			return
		}
		w.Nontrivial(core.HashBytes(B) ^ core.HashBytes(C)<<1)
	})
	// E: isolation (race build, separate process)
	if r.Replay == nil {
		runIsolationChild(r)
	}
	r.Require("C04 guarded calls", r.Counter("histories"), 100)
}

// ---- isolation stage ----

// isoOp is one operation of the immutable case list.
type isoOp struct {
	kind int
	a, b []byte
	cfg  Cfg
	cuts []int
}

const isoKinds = 9

func isoRun(op *isoOp, v *view.Vec) uint64 {
	// each call works on private copies of the input bytes
	a := append([]byte(nil), op.a...)
	b := append([]byte(nil), op.b...)
	h := uint64(1469598103934665603)
	mix := func(x uint64) { h = core.Mix(h ^ x) }
	switch op.kind {
	case 0, 1: // chunked message parse (+ signature)
		o := newMsg(op.cfg).(*msgObj)
		offs := 0
		for _, c := range op.cuts {
			n, e := o.Call(a[:c], offs)
			mix(uint64(n))
			mix(uint64(e))
			if e != sipsp.ErrHdrMoreBytes {
				v.Reset(c)
				o.View(v, view.MsgOpt{})
				for _, x := range v.N {
					mix(uint64(x))
				}
				if op.kind == 1 && o.m.Parsed() {
					sig, se := sipsp.GetMsgSig(&o.m)
					mix(uint64(se))
					mix(core.HashStr(sig.String()))
				}
				break
			}
			offs = n
		}
		o.Reset()
		n, e := o.Call(b, 0)
		mix(uint64(n))
		mix(uint64(e))
	case 2:
		var r1, r2 sipsp.PsipURI
		eq, e, k := sipsp.URIParseCmp(a, b, sipsp.URICmpFlags(op.cfg.MsgFlags), &r1, &r2)
		if eq {
			mix(1)
		}
		mix(uint64(e))
		mix(uint64(k))
		v.Reset(-1)
		view.URI(v, &r1)
		view.URI(v, &r2)
		for _, x := range v.N {
			mix(uint64(x))
		}
	case 3:
		eq, e := sipsp.URIParamsEq(a, 0, b, 0)
		if eq {
			mix(1)
		}
		mix(uint64(e))
		eq, e = sipsp.URIHdrsEq(a, 0, b, 0)
		if eq {
			mix(2)
		}
		mix(uint64(e))
	case 4:
		mix(uint64(sipsp.GetHdrType(a)))
		mix(uint64(sipsp.GetMethodNo(a)))
		mix(core.HashBytes(sipsp.GetMethodNo(b).Name()))
	case 5:
		var d4 [4]byte
		var d16 [16]byte
		ok, o, l := sipsp.ContainsIP4(a, d4[:])
		if ok {
			mix(uint64(o)<<20 | uint64(l))
			mix(core.HashBytes(d4[:]))
		}
		ok, o, l = sipsp.ContainsIP6(a, d16[:])
		if ok {
			mix(uint64(o)<<20 | uint64(l))
			mix(core.HashBytes(d16[:]))
		}
	case 6:
		s, l := sipsp.GetCallIDSig(a)
		mix(uint64(s)<<8 | uint64(l))
		s2, l2 := sipsp.GetViaBrSig(b)
		mix(uint64(s2)<<20 | uint64(l2))
	case 7:
		p := ParserByName("ParseAllURIParams").New(op.cfg)
		offs := 0
		for _, c := range op.cuts {
			n, e := p.Call(a[:c], offs)
			mix(uint64(n))
			mix(uint64(e))
			if e != sipsp.ErrHdrMoreBytes {
				v.Reset(c)
				p.View(v, view.MsgOpt{})
				for _, x := range v.N {
					mix(uint64(x))
				}
				break
			}
			offs = n
		}
	case 8:
		p := ParserByName("ParseHeaders+PHdrVals").New(op.cfg)
		offs := 0
		for _, c := range op.cuts {
			n, e := p.Call(a[:c], offs)
			mix(uint64(n))
			mix(uint64(e))
			if e != sipsp.ErrHdrMoreBytes {
				v.Reset(c)
				p.View(v, view.MsgOpt{})
				for _, x := range v.N {
					mix(uint64(x))
				}
				break
			}
			offs = n
		}
	}
	return h
}

func isoOps(seed uint64, n int) []isoOp {
	ops := make([]isoOp, n)
	for i := range ops {
		rr := core.NewRand(seed, 0xC04, 7, uint64(i))
		op := &ops[i]
		op.kind = rr.Intn(isoKinds)
		op.cfg = Cfg{HdrCap: []int{-1, 1, 4, 20}[rr.Intn(4)], ContactCap: []int{-1, 0, 2}[rr.Intn(3)], ParamCap: rr.Intn(5), MsgFlags: uint8(rr.Intn(8))}
		switch op.kind {
		case 0, 1:
			op.a = gen.Msg(rr, gen.MsgOpts{MinHdrs: 2, MaxHdrs: 15, MultiNA: 40, Request: op.kind}).Raw
			op.b = gen.Msg(rr, gen.MsgOpts{MinHdrs: 1, MaxHdrs: 6}).Raw
			op.cfg.MsgFlags &^= sipsp.SIPMsgNoMoreDataF
		case 2:
			u := gen.URI(rr)
			op.a = []byte(u.String())
			u2 := u.Clone()
			if rr.Bool() {
				u2 = gen.URI(rr)
			}
			op.b = []byte(u2.String())
			op.cfg.MsgFlags = uint8(rr.Intn(64))
		case 3:
			op.a = []byte(strings.TrimPrefix(gen.URI(rr).String(), "sip:"))
			op.b = []byte("a=1;B=2;transport=TCP;lr")
			op.a = append([]byte("x=9;transport=tcp;"), op.a...)
		case 4:
			op.a = []byte(gen.RandCase(rr, []string{"from", "Call-ID", "m", "P-Asserted-Identity", "xx", "INVITE", "REGISTER"}[rr.Intn(7)]))
			op.b = []byte([]string{"INVITE", "BYE", "invite", "OPTIONS"}[rr.Intn(4)])
		case 5, 6:
			op.a = []byte(fmt.Sprintf("ab%d.%d.%d.%d-z@[2001:db8::%x]", rr.Intn(300), rr.Intn(300), rr.Intn(300), rr.Intn(300), rr.Intn(65536)))
			op.b = []byte("SIP/2.0/UDP h;branch=z9hG4bK" + string(rr.Bytes(rr.Intn(20), []byte("abcdef0123456789-."))))
		case 7:
			op.cfg.Flags = sipsp.POptTokURIParamF | sipsp.POptInputEndF
			op.a = []byte("transport=tcp;lr;x=" + string(rr.Bytes(rr.Intn(9), []byte("abc123"))) + ";maddr=1.2.3.4;;user=phone")
		case 8:
			m := gen.Msg(rr, gen.MsgOpts{MinHdrs: 2, MaxHdrs: 12, MultiNA: 50})
			op.a = m.Raw[m.FLEnd:]
		}
		op.cuts = CutsRandom(nil, rr, 0, len(op.a), rr.Range(0, 5))
	}
	return ops
}

// IsoSummary is what the race-build child reports.
type IsoSummary struct {
	Ops          int      `json:"ops"`
	Goroutines   []int    `json:"goroutine_counts"`
	Rounds       int      `json:"rounds"`
	Executions   int64    `json:"executions"`
	Mismatches   []string `json:"mismatches"`
	RaceDetector bool     `json:"race_detector"`
}

// RunIsolationChild is executed inside the race-detector build.
func RunIsolationChild(seed uint64, tier string, out string) int {
	nOps := 3000
	rounds := 6
	if tier == "thorough" {
		nOps = 20000
		rounds = 30
	}
	ops := isoOps(seed, nOps)
	sum := IsoSummary{Ops: nOps, RaceDetector: raceEnabled, Rounds: rounds}
	// quiet sequential reference
	ref := make([]uint64, nOps)
	var v view.Vec
	for i := range ops {
		ref[i] = isoRun(&ops[i], &v)
		sum.Executions++
	}
	var mu sync.Mutex
	report := func(s string) {
		mu.Lock()
		if len(sum.Mismatches) < 20 {
			sum.Mismatches = append(sum.Mismatches, s)
		}
		mu.Unlock()
	}
	for round := 0; round < rounds; round++ {
		G := []int{2, 3, 8, 16, 64, 5}[round%6]
		sum.Goroutines = append(sum.Goroutines, G)
		var wg sync.WaitGroup
		var execs [64]int64
		startGate := make(chan struct{})
		for g := 0; g < G; g++ {
			wg.Add(1)
			go func(g int) {
				defer wg.Done()
				defer func() {
					if e := recover(); e != nil {
						report(fmt.Sprintf("goroutine %d panicked: %v\n%s", g, e, debug.Stack()))
					}
				}()
				rr := core.NewRand(seed, 0xC04, 8, uint64(round), uint64(g))
				var v view.Vec
				<-startGate
				for k := 0; k < nOps/4; k++ {
					i := rr.Intn(nOps)
					if got := isoRun(&ops[i], &v); got != ref[i] {
						report(fmt.Sprintf("op %d (kind %d, input %s): result while %d goroutines run concurrently differs from the sequential result", i, ops[i].kind, core.Esc(ops[i].a), G))
					}
					execs[g]++
				}
			}(g)
		}
		close(startGate)
		wg.Wait()
		for _, e := range execs {
			sum.Executions += e
		}
	}
	// interleaving on ONE goroutine: chunked parses of several objects stepped round-robin
	for round := 0; round < rounds*20; round++ {
		rr := core.NewRand(seed, 0xC04, 9, uint64(round))
		k := rr.Range(2, 6)
		type live struct {
			op   *isoOp
			o    Obj
			buf  []byte
			offs int
			ci   int
			h    uint64
			done bool
		}
		ls := make([]*live, k)
		want := make([]uint64, k)
		for j := range ls {
			var op *isoOp
			for {
				op = &ops[rr.Intn(nOps)]
				if op.kind == 0 || op.kind == 8 {
					break
				}
			}
			pn := "ParseSIPMsg"
			if op.kind == 8 {
				pn = "ParseHeaders+PHdrVals"
			}
			ls[j] = &live{op: op, o: ParserByName(pn).New(op.cfg), buf: append([]byte(nil), op.a...), h: 7}
			// sequential expectation for exactly this driving
			o2 := ParserByName(pn).New(op.cfg)
			h, offs := uint64(7), 0
			for _, c := range op.cuts {
				n, e := o2.Call(op.a[:c], offs)
				h = core.Mix(h ^ uint64(n)<<8 ^ uint64(e))
				if e != sipsp.ErrHdrMoreBytes {
					v.Reset(c)
					o2.View(&v, view.MsgOpt{})
					for _, x := range v.N {
						h = core.Mix(h ^ uint64(x))
					}
					break
				}
				offs = n
			}
			want[j] = h
		}
		for left := k; left > 0; {
			j := rr.Intn(k)
			l := ls[j]
			if l.done {
				continue
			}
			if l.ci >= len(l.op.cuts) {
				l.done = true
				left--
				continue
			}
			c := l.op.cuts[l.ci]
			l.ci++
			n, e := l.o.Call(l.buf[:c], l.offs)
			sum.Executions++
			l.h = core.Mix(l.h ^ uint64(n)<<8 ^ uint64(e))
			if e != sipsp.ErrHdrMoreBytes {
				v.Reset(c)
				l.o.View(&v, view.MsgOpt{})
				for _, x := range v.N {
					l.h = core.Mix(l.h ^ uint64(x))
				}
				l.done = true
				left--
				continue
			}
			l.offs = n
		}
		for j, l := range ls {
			if l.h != want[j] {
				report(fmt.Sprintf("interleaved driving of %d objects: object %d (input %s) differs from the same driving done alone", k, j, core.Esc(l.op.a)))
			}
		}
	}
	b, _ := json.Marshal(sum)
	os.WriteFile(out, b, 0o644)
	if len(sum.Mismatches) > 0 {
		return 1
	}
	return 0
}

// runIsolationChild launches the race build and folds its result into r.
func runIsolationChild(r *core.Run) {
	bin := os.Getenv("SIPSPMON_RACE_BIN")
	if bin == "" {
		r.Inconclusive("isolation stage: race-detector build not available (SIPSPMON_RACE_BIN unset)")
		return
	}
	dir, err := os.MkdirTemp(filepath.Dir(bin), "iso")
	if err != nil {
		r.Inconclusive("isolation stage: " + err.Error())
		return
	}
	defer os.RemoveAll(dir)
	out := filepath.Join(dir, "summary.json")
	logp := filepath.Join(dir, "race")
	cmd := exec.Command(bin, "-isolation-child", out, "-tier", r.Tier, "-seed", fmt.Sprint(r.Seed))
	cmd.Env = append(os.Environ(), "GORACE=halt_on_error=0 exitcode=66 log_path="+logp)
	cout, cerr := cmd.CombinedOutput()
	var sum IsoSummary
	if b, e := os.ReadFile(out); e == nil {
		json.Unmarshal(b, &sum)
	}
	var races []string
	logs, _ := filepath.Glob(logp + ".*")
	for _, l := range logs {
		b, _ := os.ReadFile(l)
		for _, blk := range strings.Split(string(b), "==================") {
			if strings.Contains(blk, "WARNING: DATA RACE") {
				races = append(races, strings.TrimSpace(blk))
			}
		}
	}
	w := &core.Worker{R: r, Stage: "isolation", Cnt: map[string]int64{}}
	// fold into evidence
	r.Extra["isolation"] = map[string]any{"race_detector": sum.RaceDetector, "ops": sum.Ops, "goroutine_counts": sum.Goroutines,
		"executions": sum.Executions, "data_race_reports": len(races), "result_mismatches": len(sum.Mismatches)}
	r.Stage("isolation(summary)", 1, func(w2 *core.Worker, idx int64) {
		w2.Eval(int(sum.Executions))
		w2.Add("executions", sum.Executions)
		w2.Add("data_race_reports", int64(len(races)))
	})
	for i, rc := range races {
		if i >= 3 {
			break
		}
		rcc := rc
		w.Idx = int64(i)
		w.Fail("data-race", func() *core.Violation {
			return core.V("the race detector reported a data race between independent calls", nil, map[string]any{"report": rcc})
		})
	}
	for i, mm := range sum.Mismatches {
		mmc := mm
		w.Idx = int64(100 + i)
		w.Fail("isolation-mismatch", func() *core.Violation { return core.V(mmc, nil, nil) })
	}
	if !sum.RaceDetector || sum.Executions == 0 {
		if len(races) == 0 && len(sum.Mismatches) == 0 {
			r.Inconclusive(fmt.Sprintf("isolation child did not run to completion (err=%v, output=%s)", cerr, string(cout)))
		}
	}
}
