package mon

import (
	"fmt"

	"github.com/intuitivelabs/sipsp"

	"verif/harness/core"
	"verif/harness/gen"
	"verif/harness/view"
)

// drive runs an object along cuts and returns the definitive result.
func drive(o Obj, buf []byte, start int, cuts []int) (n int, e sipsp.ErrorHdr, cut int, pan string) {
	offs := start
	e = sipsp.ErrHdrMoreBytes
	for _, c := range cuts {
		var p string
		n, e, p, _ = safeCall(o, isoCopy(buf[:c]), offs)
		cut = c
		if p != "" {
			return n, e, c, p
		}
		if e != sipsp.ErrHdrMoreBytes {
			return
		}
		offs = n
	}
	return
}

// driveLate is drive with the end-of-input flag withheld until the last cut (late == true).
func driveLate(o Obj, buf []byte, start int, cuts []int, late bool) (n int, e sipsp.ErrorHdr, cut int, pan string) {
	lf, ok := o.(lateFlagger)
	if !late || !ok || len(cuts) < 2 {
		return drive(o, buf, start, cuts)
	}
	lf.setEndInput(false)
	n, e, cut, pan = drive(o, buf, start, cuts[:len(cuts)-1])
	lf.setEndInput(true)
	if pan != "" || e != sipsp.ErrHdrMoreBytes {
		return
	}
	return drive(o, buf, n, cuts[len(cuts)-1:])
}

// moreFacts checks the 'more' indicators of an object against its capacity.
func moreFacts(o Obj, cfg Cfg) string {
	switch x := o.(type) {
	case *msgObj:
		c := &x.m.PV.Contacts
		if c.More() != (c.N > len(c.Vals)) {
			return fmt.Sprintf("Contacts.More()=%v with N=%d capacity=%d", c.More(), c.N, len(c.Vals))
		}
		if want := minInt(c.N, len(c.Vals)); c.VNo() != want {
			return fmt.Sprintf("Contacts.VNo()=%d with N=%d capacity=%d", c.VNo(), c.N, len(c.Vals))
		}
	case *headersObj:
		if x.pv != nil {
			c := &x.pv.Contacts
			if c.More() != (c.N > len(c.Vals)) {
				return fmt.Sprintf("Contacts.More()=%v with N=%d capacity=%d", c.More(), c.N, len(c.Vals))
			}
		}
	case *contactsObj:
		c := &x.c
		if c.More() != (c.N > len(c.Vals)) || c.VNo() != minInt(c.N, len(c.Vals)) {
			return fmt.Sprintf("Contacts.More()=%v VNo()=%d with N=%d capacity=%d", c.More(), c.VNo(), c.N, len(c.Vals))
		}
	case *uriParamsObj:
		l := &x.l
		if l.More() != (l.N > len(l.Params)) || l.PNo() != minInt(l.N, len(l.Params)) {
			return fmt.Sprintf("URIParamsLst.More()=%v PNo()=%d with N=%d capacity=%d", l.More(), l.PNo(), l.N, len(l.Params))
		}
	case *uriHdrsObj:
		l := &x.l
		if l.More() != (l.N > len(l.Hdrs)) || l.HNo() != minInt(l.N, len(l.Hdrs)) {
			return fmt.Sprintf("URIHdrsLst.More()=%v HNo()=%d with N=%d capacity=%d", l.More(), l.HNo(), l.N, len(l.Hdrs))
		}
	}
	return ""
}

func minInt(a, b int) int {
	if a < b {
		return a
	}
	return b
}

// scratchUsed tells whether the overflow (scratch slot) path must have run.
func scratchUsed(o Obj) bool {
	switch x := o.(type) {
	case *msgObj:
		return x.m.HL.N > len(x.m.HL.Hdrs) || x.m.PV.Contacts.N > len(x.m.PV.Contacts.Vals) || x.m.PV.PAIs.N > 2
	case *headersObj:
		return x.hl.N > len(x.hl.Hdrs) || (x.pv != nil && (x.pv.Contacts.N > len(x.pv.Contacts.Vals) || x.pv.PAIs.N > 2))
	case *contactsObj:
		return x.c.N > len(x.c.Vals)
	case *uriParamsObj:
		return x.l.N > len(x.l.Params)
	case *uriHdrsObj:
		return x.l.N > len(x.l.Hdrs)
	}
	return false
}

// capLimits maps a configuration to view limits.
func capLimits(p *ParserDef, cfg Cfg) view.Opt {
	h := cfg.HdrCap
	if h < 0 {
		h = 10
		if !p.IsMsg {
			h = 0
		}
	}
	c := cfg.ContactCap
	if c < 0 {
		c = 0
		if p.IsMsg {
			c = 10
		}
	}
	return view.Opt{CapIndep: true, HdrLimit: h, ContactLimit: c, ParamLimit: cfg.ParamCap}
}

// CheckCapacity is the C13 oracle.
func CheckCapacity(w *core.Worker, p *ParserDef, ample, small Cfg, buf []byte, cuts []int) (judged, overflow bool) {
	return CheckCapacityH(w, p, ample, small, buf, cuts, nil, 0)
}

// CheckCapacityH is CheckCapacity on objects that share a history: both were
// first used for the (possibly abandoned) input pre and then reset.
func CheckCapacityH(w *core.Worker, p *ParserDef, ample, small Cfg, buf []byte, cuts []int, pre []byte, rk int) (judged, overflow bool) {
	s := sc(w)
	A := p.New(ample)
	S := p.New(small)
	if pre != nil {
		pan, _, _ := core.Guard(func() {
			A.Call(pre, 0)
			S.Call(pre, 0)
			ma, oka := A.(*msgObj)
			ms, oks := S.(*msgObj)
			if oka && oks && rk == rkResetInit && len(pre) > 3 {
				// the caller cycles through its arrays: own arrays -> built-in arrays -> own arrays again
				ha, ca := ma.m.HL.Hdrs, ma.m.PV.Contacts.Vals
				hs, cs := ms.m.HL.Hdrs, ms.m.PV.Contacts.Vals
				ma.m.Init(nil, nil, nil)
				ms.m.Init(nil, nil, nil)
				A.Call(pre[:len(pre)/2], 0)
				S.Call(pre[:len(pre)/2], 0)
				ma.m.Init(nil, ha, ca)
				ms.m.Init(nil, hs, cs)
				return
			}
			doReset(A, rk, ample)
			doReset(S, rk, small)
		})
		if pan {
			w.Inc("history_panicked(left to C04/C12)")
			return
		}
	}
	// both runs follow the same cut schedule: only the capacity differs
	// (an end-of-input flag is given on the last call only: earlier calls do not see the end)
	late := len(cuts) > 1 && p.EndInput(small)
	na, ea, cuta, pana := driveLate(A, buf, 0, cuts, late)
	ns, es, cuts2, pans := driveLate(S, buf, 0, cuts, late)
	if late {
		w.Inc("late_end_flag_runs")
	}
	w.Eval(2)
	if pana != "" || pans != "" {
		if pana != "" && pans != "" {
			w.Inc("both_panicked(left to C04)")
			return
		}
		w.Fail("panic-one-capacity/"+p.Name, func() *core.Violation {
			d := (&Case{P: p, Cfg: small, Buf: buf}).detail()
			return core.V(fmt.Sprintf("%s: ample capacity panicked=%q, capacity (hdr %d, contact %d, param %d) panicked=%q", p.Name, pana, small.HdrCap, small.ContactCap, small.ParamCap, pans), buf, d)
		})
		return
	}
	if ea == sipsp.ErrHdrMoreBytes || !(ea == sipsp.ErrHdrOk || ea == sipsp.ErrHdrEOH || ea == sipsp.ErrHdrNoCLen) {
		// the statement quantifies over successfully parsed inputs; still the
		// verdict itself must not depend on the capacity
		if ea != es || (ea != sipsp.ErrHdrMoreBytes && na != ns) {
			w.Fail("verdict-depends-on-capacity/"+p.Name, func() *core.Violation {
				d := (&Case{P: p, Cfg: small, Buf: buf}).detail()
				d["cuts"] = append([]int(nil), cuts...)
				return core.V(fmt.Sprintf("%s: ample capacity gives (offs=%d, %s), capacity (hdr %d, contact %d, param %d) gives (offs=%d, %s)",
					p.Name, na, errName(ea), small.HdrCap, small.ContactCap, small.ParamCap, ns, errName(es)), buf, d)
			})
		}
		return
	}
	judged = true
	if ea != es || na != ns {
		w.Fail("verdict-depends-on-capacity/"+p.Name, func() *core.Violation {
			d := (&Case{P: p, Cfg: small, Buf: buf}).detail()
			d["cuts"] = append([]int(nil), cuts...)
			return core.V(fmt.Sprintf("%s: ample capacity gives (offs=%d, %s), capacity (hdr %d, contact %d, param %d) gives (offs=%d, %s)",
				p.Name, na, errName(ea), small.HdrCap, small.ContactCap, small.ParamCap, ns, errName(es)), buf, d)
		})
		return
	}
	_ = cuta
	_ = cuts2
	lim := capLimits(p, small)
	op := view.MsgOpt{Opt: lim}
	pa := viewOf(&s.v1, A, len(buf), op, false)
	ps := viewOf(&s.v2, S, len(buf), op, false)
	if pa != "" || ps != "" || !view.Equal(&s.v1, &s.v2) {
		w.Fail("result-depends-on-capacity/"+p.Name, func() *core.Violation {
			viewOf(&s.v1, A, len(buf), op, true)
			viewOf(&s.v2, S, len(buf), op, true)
			d := (&Case{P: p, Cfg: small, Buf: buf}).detail()
			d["cuts"] = append([]int(nil), cuts...)
			if pre != nil {
				d["both_objects_used_before_for"] = core.Esc(pre)
			}
			return core.V(fmt.Sprintf("%s: with capacity (hdr %d, contact %d, param %d) the capacity-independent part of the result differs from the ample-capacity run: %s (left ample, right small)",
				p.Name, small.HdrCap, small.ContactCap, small.ParamCap, view.Diff(&s.v1, &s.v2)), buf, d)
		})
		return
	}
	if m := moreFacts(S, small); m != "" {
		w.Fail("more-indicator/"+p.Name, func() *core.Violation {
			return core.V(p.Name+": "+m, buf, (&Case{P: p, Cfg: small, Buf: buf}).detail())
		})
	}
	overflow = scratchUsed(S)
	return
}

// RunC13 is the monitor for C13.
func RunC13(r *core.Run) {
	r.Rule = "case = (input, capacity vector (header, contact, URI-param capacity incl. 0 and none), cut schedule); the run is compared with an ample-capacity one-shot run: verdict, offset, all counts (N, HNo), type flags, GetHdr(t) for every t, From/To/Call-ID/CSeq/CLen/Expires values, expires summary, LastHVal, the stored elements [0,min(N,capacity)), GetContact(0) and GetContact(N-1), body/raw message; More()/VNo()/PNo()/HNo() must equal N>capacity / min(N,capacity); non-trivial = the input was accepted and compared; 'overflow' counts cases where N exceeded a capacity (scratch slot path executed); a third of the message cases run on objects that share a pre-history (other message abandoned, then Reset/Init); URI lists are also filled by several consecutive calls"
	r.Assume = []string{"ample capacity = 64 headers / 64 contacts / 32 URI parameters, larger than any generated message"}
	ample := Cfg{HdrCap: 64, ContactCap: 64, ParamCap: 32}
	n := r.Pick(400000, 16000000)
	r.Stage("messages", n, func(w *core.Worker, idx int64) {
		rr := core.NewRand(r.Seed, 0xC13, 1, uint64(idx))
		m := gen.Msg(rr, gen.MsgOpts{MinHdrs: 1, MaxHdrs: 14, MultiNA: 55, TrailSemi: true, DupParams: rr.Bool(),
			Kinds: []int{gen.HContact, gen.HContact, gen.HContact, gen.HPAI, gen.HFrom, gen.HTo, gen.HCSeq, gen.HCallID, gen.HVia, gen.HExpires, gen.HOtherKind, gen.HRoute}})
		in := m.Raw
		mutate := rr.Intn(8) == 0
		nh, nc := len(m.Hdrs), countContacts(m)
		p := Parsers[0]
		which := rr.Intn(3)
		if which == 1 {
			p = ParserByName("ParseHeaders+PHdrVals")
			in = in[m.FLEnd:]
		} else if which == 2 {
			p = ParserByName("ParseHeaders")
			in = in[m.FLEnd:]
		}
		if mutate {
			in = gen.Mutate(rr, in, 2)
		}
		a := ample
		a.MsgFlags = uint8(rr.Intn(8)) &^ sipsp.SIPMsgNoMoreDataF
		s := sc(w)
		anyJ, ovf := false, false
		hcs := []int{-1, 0, 1, 2, nh - 1, nh, nh + 1}
		ccs := []int{-1, 0, 1, 2, nc, nc + 1, nc - 1}
		for t := 0; t < 6; t++ {
			small := a
			small.HdrCap = hcs[rr.Intn(len(hcs))]
			small.ContactCap = ccs[rr.Intn(len(ccs))]
			if small.HdrCap < -1 {
				small.HdrCap = 0
			}
			if small.ContactCap < -1 {
				small.ContactCap = 0
			}
			if !p.IsMsg && small.HdrCap < 0 {
				small.HdrCap = 0
			}
			if t%2 == 0 {
				s.cuts = append(s.cuts[:0], len(in))
			} else {
				s.cuts = CutsRandom(s.cuts, rr, 0, len(in), rr.Range(1, 8))
			}
			var pre []byte
			if t >= 4 {
				// both objects were used before: another message abandoned somewhere, then reset
				om := gen.Msg(rr, gen.MsgOpts{MinHdrs: 2, MaxHdrs: 8, MultiNA: 70, Kinds: []int{gen.HContact, gen.HContact, gen.HPAI, gen.HFrom, gen.HVia}}).Raw
				if !p.IsMsg {
					for k := 0; k < len(om); k++ {
						if om[k] == '\n' {
							om = om[k+1:]
							break
						}
					}
				}
				pre = om[:rr.Intn(len(om)+1)]
				w.Inc("cases_with_history")
			}
			j, o := CheckCapacityH(w, p, a, small, in, s.cuts, pre, rr.Intn(rkCount))
			anyJ = anyJ || j
			ovf = ovf || o
		}
		if anyJ {
			w.Nontrivial(core.HashBytes(in) ^ core.HashStr(p.Name))
			w.Inc("nontrivial_cases")
		}
		if ovf {
			w.Inc("overflow_path_cases")
		}
		if w.WantSample("messages") {
			w.Sample("messages", map[string]any{"parser": p.Name, "input": core.Esc(in), "headers": nh, "contacts": nc})
		}
	})
	r.Stage("contact-lists", r.Pick(200000, 10000000), func(w *core.Worker, idx int64) {
		rr := core.NewRand(r.Seed, 0xC13, 2, uint64(idx))
		nv := rr.Range(1, 6)
		in, _ := gen.NameAddrValue(rr, nv, false, false)
		p := ParserByName("ParseAllContactValues")
		s := sc(w)
		anyJ, ovf := false, false
		for cc := -1; cc <= nv+1; cc++ {
			small := ample
			small.ContactCap = cc
			s.cuts = CutsRandom(s.cuts, rr, 0, len(in), rr.Intn(4))
			j, o := CheckCapacity(w, p, ample, small, in, s.cuts)
			anyJ = anyJ || j
			ovf = ovf || o
		}
		if anyJ {
			w.Nontrivial(core.HashBytes(in))
			w.Inc("nontrivial_cases")
		}
		if ovf {
			w.Inc("overflow_path_cases")
		}
	})
	r.Stage("uri-param-and-header-lists", r.Pick(300000, 12000000), func(w *core.Worker, idx int64) {
		rr := core.NewRand(r.Seed, 0xC13, 3, uint64(idx))
		p := ParserByName([]string{"ParseAllURIParams", "ParseAllURIHdrs"}[rr.Intn(2)])
		flags := TokFlagSets[rr.Intn(len(TokFlagSets))]
		pl := gen.ParamList(rr, gen.PLOptsFor(flags, rr))
		in := pl.Raw
		a := ample
		a.Flags = flags
		s := sc(w)
		anyJ, ovf := false, false
		for pc := 0; pc <= len(pl.Items)+1; pc++ {
			small := a
			small.ParamCap = pc
			s.cuts = CutsRandom(s.cuts, rr, 0, len(in), rr.Intn(4))
			if flags&sipsp.POptInputEndF != 0 && rr.Bool() {
				s.cuts = append(s.cuts[:0], len(in)) // end-of-input mode: one call sees everything
			} // otherwise the flag is withheld until the last call (CheckCapacityH)
			var pre []byte
			if pc > 0 && rr.Intn(3) == 0 {
				// both lists were used before: another list abandoned somewhere, then Reset()
				ol := gen.ParamList(rr, gen.PLOptsFor(flags&^sipsp.POptInputEndF, rr)).Raw
				pre = ol[:rr.Intn(len(ol)+1)]
				w.Inc("cases_with_history")
			}
			j, o := CheckCapacityH(w, p, a, small, in, s.cuts, pre, rr.Intn(rkCount))
			anyJ = anyJ || j
			ovf = ovf || o
		}
		if anyJ {
			w.Nontrivial(core.HashBytes(in) ^ uint64(flags)<<40 ^ core.HashStr(p.Name))
			w.Inc("nontrivial_cases")
		}
		if ovf {
			w.Inc("overflow_path_cases")
		}
		if w.WantSample("uri-lists") {
			w.Sample("uri-lists", map[string]any{"parser": p.Name, "input": core.Esc(in), "flags": uint(flags), "items": len(pl.Items)})
		}
	})
	// lists filled by SEVERAL calls (the wrappers 'add' to the list): k comma/'?' terminated
	// lists in one buffer, each parsed by its own call into the same list object
	r.Stage("uri-lists-filled-by-several-calls", r.Pick(80000, 5000000), func(w *core.Worker, idx int64) {
		rr := core.NewRand(r.Seed, 0xC13, 4, uint64(idx))
		hdrs := rr.Bool()
		flags := sipsp.POptTokCommaTermF
		eff := flags | sipsp.POptParamSemiSepF
		if hdrs {
			eff = flags | sipsp.POptParamAmpSepF | sipsp.POptTokURIHdrF
		}
		k := rr.Range(2, 4)
		var buf []byte
		var starts []int
		total := 0
		badAt := -1
		if rr.Intn(3) == 0 {
			badAt = rr.Intn(k - 1) // one of the calls (not the last) runs into a malformed element
		}
		for i := 0; i < k; i++ {
			o := gen.PLOpts{Flags: eff, Term: gen.TermChar, MaxItems: 4}
			if i == k-1 {
				o.Term = gen.TermEOH
			}
			if i == badAt {
				// a call that ends in an error verdict (after 0..2 good elements); the caller skips
				// it and goes on adding to the same list with the next call
				starts = append(starts, len(buf))
				sep := ";"
				if hdrs {
					sep = "&"
				}
				buf = append(buf, []string{"\x01bad", "a=1" + sep + "b\x02", "x" + sep + "y=2" + sep + "\"unterminated\x00", "=", "a=\x7f"}[rr.Intn(5)]...)
				buf = append(buf, ',')
				w.Inc("lists_with_an_error_call_in_between")
				continue
			}
			pl := gen.ParamList(rr, o)
			starts = append(starts, len(buf))
			if o.Term == gen.TermChar {
				buf = append(buf, pl.Raw[:pl.TermOffs+1]...)
			} else {
				buf = append(buf, pl.Raw...)
			}
			total += len(pl.Items)
		}
		run := func(pc int) (res []int64, pan string) {
			var ob Obj
			if hdrs {
				x := &uriHdrsObj{flags: flags}
				x.l.Init(make([]sipsp.URIHdr, pc))
				ob = x
			} else {
				x := &uriParamsObj{flags: flags}
				x.l.Init(make([]sipsp.URIParam, pc))
				ob = x
			}
			for i := 0; i < k; i++ {
				n, e, p, _ := safeCall(ob, buf, starts[i])
				if p != "" {
					return nil, p
				}
				res = append(res, int64(n), int64(e))
			}
			var v view.Vec
			v.Reset(len(buf))
			ob.View(&v, view.MsgOpt{Opt: view.Opt{CapIndep: true, ParamLimit: 0}})
			return append(res, v.N...), ""
		}
		ref, pan := run(total + 5)
		w.Eval(1)
		if pan != "" {
			return
		}
		for pc := 0; pc <= total+2; pc++ {
			got, pan := run(pc)
			w.Eval(1)
			same := pan == "" && len(got) == len(ref)
			for i := 0; same && i < len(got); i++ {
				same = got[i] == ref[i]
			}
			if !same {
				bc := append([]byte(nil), buf...)
				w.Fail("several-calls-depend-on-capacity", func() *core.Violation {
					return core.V(fmt.Sprintf("%d lists parsed by %d consecutive calls into one list object: with capacity %d the (offset, verdict) sequence / N / Types are %v (panic %q), with ample capacity %v",
						k, k, pc, got, pan, ref), bc, map[string]any{"uri_headers": hdrs, "call_offsets": starts, "total_items": total})
				})
				return
			}
		}
		w.Nontrivial(core.HashBytes(buf))
		w.Inc("nontrivial_cases")
		w.Inc("overflow_path_cases")
	})
	// contact / identity lists filled by SEVERAL calls: the bodies of k headers, each handed to its
	// own ParseAllContactValues / ParseAllPAIValues call on the same list ("add them to the passed
	// PContacts"), some of them delivered in two pieces
	r.Stage("contact-lists-filled-by-several-calls", r.Pick(150000, 8000000), func(w *core.Worker, idx int64) {
		rr := core.NewRand(r.Seed, 0xC13, 6, uint64(idx))
		p := ParserByName([]string{"ParseAllContactValues", "ParseAllPAIValues"}[rr.Intn(2)])
		k := rr.Range(2, 4)
		var buf []byte
		var starts, ends, cuts []int
		total := 0
		for i := 0; i < k; i++ {
			nv := rr.Range(1, 3)
			body, _ := gen.NameAddrValue(rr, nv, false, false)
			starts = append(starts, len(buf))
			buf = append(buf, body...)
			ends = append(ends, len(buf))
			c := -1
			if rr.Intn(3) == 0 {
				c = starts[i] + rr.Intn(len(body)+1)
			}
			cuts = append(cuts, c)
			total += nv
		}
		run := func(cc int) (res []int64, pan string) {
			cfg := ample
			cfg.ContactCap = cc
			ob := p.New(cfg)
			for i := 0; i < k; i++ {
				o := starts[i]
				if cuts[i] >= 0 {
					n, e, pn, _ := safeCall(ob, isoCopy(buf[:cuts[i]]), o)
					if pn != "" {
						return nil, pn
					}
					if e != sipsp.ErrHdrMoreBytes {
						res = append(res, int64(n), int64(e))
						continue
					}
					o = n
				}
				n, e, pn, _ := safeCall(ob, buf[:ends[i]], o)
				if pn != "" {
					return nil, pn
				}
				res = append(res, int64(n), int64(e))
			}
			var v view.Vec
			v.Reset(len(buf))
			ob.View(&v, view.MsgOpt{Opt: view.Opt{CapIndep: true, ContactLimit: 0}})
			return append(res, v.N...), ""
		}
		ref, pan := run(total + 3)
		w.Eval(1)
		if pan != "" {
			return
		}
		for cc := -1; cc <= total; cc++ {
			got, pan := run(cc)
			w.Eval(1)
			same := pan == "" && len(got) == len(ref)
			for i := 0; same && i < len(got); i++ {
				same = got[i] == ref[i]
			}
			if !same {
				bc := append([]byte(nil), buf...)
				w.Fail("several-calls-depend-on-capacity/"+p.Name, func() *core.Violation {
					return core.V(fmt.Sprintf("%s: %d header bodies parsed by consecutive calls into one list: with capacity %d the (offset, verdict) sequence and the capacity-independent view are %v (panic %q), with ample capacity %v",
						p.Name, k, cc, got, pan, ref), bc, map[string]any{"call_offsets": starts, "first_piece_ends": cuts, "total_values": total})
				})
				return
			}
		}
		w.Nontrivial(core.HashBytes(buf))
		w.Inc("nontrivial_cases")
		w.Inc("overflow_path_cases")
	})
	r.Require("C13 accepted inputs compared", r.Counter("nontrivial_cases"), 5000)
	r.Require("C13 overflow-path cases", r.Counter("overflow_path_cases"), 2000)
}
