package mon

import "github.com/intuitivelabs/sipsp"

// matchD15 recognises finding D15 (fixed): space-terminated token parameter,
// a quoted value directly followed by a token, fresh offset = resumed offset - 1.
func matchD15(c *Case, cut, n, nf int, e, ef sipsp.ErrorHdr) string {
	if c.Cfg.Flags&sipsp.POptTokSpTermF == 0 || e != ef || e != sipsp.ErrHdrOk {
		return ""
	}
	if n == nf+1 && nf >= 0 && nf < len(c.Buf) && c.Buf[nf] == '"' {
		return "D15"
	}
	return ""
}
