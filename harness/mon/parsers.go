// Package mon holds one monitor per property plus the shared parser table.
package mon

import (
	"fmt"

	"github.com/intuitivelabs/sipsp"

	"verif/harness/core"
	"verif/harness/view"
)

// Obj is one resumable parser object driven through the documented
// protocol: Call(buf, offs) again with a longer buf and the returned offset
// while the verdict is ErrHdrMoreBytes.
type Obj interface {
	Call(buf []byte, offs int) (int, sipsp.ErrorHdr)
	View(v *view.Vec, o view.MsgOpt)
	Reset()
	State() uint32
}

// Cfg is the configuration part of a case.
type Cfg struct {
	HdrCap     int // -1: nil (built-in array for messages)
	ContactCap int // -1: nil
	ParamCap   int // URI param / header array capacity
	MsgFlags   uint8
	Flags      sipsp.POptFlags
}

// DefCfg is the configuration with built-in arrays.
var DefCfg = Cfg{HdrCap: -1, ContactCap: -1, ParamCap: 8}

// ParserDef describes one entry of the parser table.
type ParserDef struct {
	Name     string
	Group    string // enumeration family (which G-enum alphabet applies)
	New      func(c Cfg) Obj
	IsMsg    bool
	EndInput func(c Cfg) bool // the configuration is an end-of-input mode (C03 exemption)
	Stateful bool             // has resumable state (false: SkipQuoted)
}

func never(Cfg) bool { return false }

// caller arrays: for even n the slice is cut from a larger backing array
// (len < cap), as callers that re-slice a pool do
func mkHdrs(n int) []sipsp.Hdr {
	if n < 0 {
		return nil
	}
	return make([]sipsp.Hdr, n, n+(1-n%2)*5)
}
func mkContacts(n int) []sipsp.PFromBody {
	if n < 0 {
		return nil
	}
	return make([]sipsp.PFromBody, n, n+(1-n%2)*3)
}

// ---- whole message ----

type msgObj struct {
	m     sipsp.PSIPMsg
	flags uint8
}

func newMsg(c Cfg) Obj {
	o := &msgObj{flags: c.MsgFlags}
	o.m.Init(nil, mkHdrs(c.HdrCap), mkContacts(c.ContactCap))
	return o
}
func (o *msgObj) Call(buf []byte, offs int) (int, sipsp.ErrorHdr) {
	return sipsp.ParseSIPMsg(buf, offs, &o.m, o.flags)
}
func (o *msgObj) View(v *view.Vec, op view.MsgOpt) { view.Msg(v, &o.m, op) }
func (o *msgObj) Reset()                           { o.m.Reset() }
func (o *msgObj) setEndInput(on bool) {
	o.flags &^= sipsp.SIPMsgNoMoreDataF
	if on {
		o.flags |= sipsp.SIPMsgNoMoreDataF
	}
}
func (o *msgObj) State() uint32 {
	// section | header-line state | first-line state | pending typed sub-automaton and its state
	return view.StMsg(&o.m) | pvState(&o.m.PV)
}

// Msg gives access to the underlying message (for monitors needing it).
func (o *msgObj) Msg() *sipsp.PSIPMsg { return &o.m }

// ---- first line ----

type flineObj struct{ fl sipsp.PFLine }

func (o *flineObj) Call(buf []byte, offs int) (int, sipsp.ErrorHdr) {
	return sipsp.ParseFLine(buf, offs, &o.fl)
}
func (o *flineObj) View(v *view.Vec, op view.MsgOpt) { view.FLine(v, &o.fl) }
func (o *flineObj) Reset()                           { o.fl.Reset() }
func (o *flineObj) State() uint32                    { return view.StFLine(&o.fl) }

// ---- single header line ----

type hdrLineObj struct {
	h    sipsp.Hdr
	pv   *sipsp.PHdrVals
	ccap int
}

func (o *hdrLineObj) Call(buf []byte, offs int) (int, sipsp.ErrorHdr) {
	if o.pv == nil {
		return sipsp.ParseHdrLine(buf, offs, &o.h, nil)
	}
	return sipsp.ParseHdrLine(buf, offs, &o.h, o.pv)
}
func (o *hdrLineObj) View(v *view.Vec, op view.MsgOpt) {
	view.Hdr(v, &o.h)
	if o.pv != nil {
		view.HdrVals(v, o.pv, op.Opt)
	}
}
func (o *hdrLineObj) Reset() {
	o.h.Reset()
	if o.pv != nil {
		o.pv.Reset()
	}
}
func (o *hdrLineObj) State() uint32 {
	s := view.StHdr(&o.h)
	if o.pv != nil {
		s |= pvState(o.pv) << 8
	}
	return s
}

func pvState(pv *sipsp.PHdrVals) uint32 {
	// the sub-automaton that is currently pending (at most one is)
	switch {
	case pv.From.Pending():
		return 0x100 | view.StFrom(&pv.From)
	case pv.To.Pending():
		return 0x200 | view.StFrom(&pv.To)
	case pv.Callid.Pending():
		return 0x300 | view.StCallID(&pv.Callid)
	case pv.CSeq.Pending():
		return 0x400 | view.StCSeq(&pv.CSeq)
	case pv.CLen.Pending():
		return 0x500 | view.StUInt(&pv.CLen)
	case pv.Expires.Pending():
		return 0x600 | view.StUInt(&pv.Expires)
	}
	n := pv.Contacts.N
	if n < len(pv.Contacts.Vals) && pv.Contacts.Vals[n].Pending() {
		return 0x700 | view.StFrom(&pv.Contacts.Vals[n])
	}
	if s := view.StContactsScratch(&pv.Contacts); s != 0 && s != 32 {
		return 0x800 | s
	}
	n = pv.PAIs.N
	if n < len(pv.PAIs.Vals) && pv.PAIs.Vals[n].Pending() {
		return 0x900 | view.StFrom(&pv.PAIs.Vals[n])
	}
	if s := view.StPAIsScratch(&pv.PAIs); s != 0 && s != 32 {
		return 0xa00 | s
	}
	return 0
}

// ---- header block ----

type headersObj struct {
	hl  sipsp.HdrLst
	pv  *sipsp.PHdrVals
	alt []sipsp.PFromBody // C12: the caller's second contact array (Init alternates between two)
}

func (o *headersObj) Call(buf []byte, offs int) (int, sipsp.ErrorHdr) {
	if o.pv == nil {
		return sipsp.ParseHeaders(buf, offs, &o.hl, nil)
	}
	return sipsp.ParseHeaders(buf, offs, &o.hl, o.pv)
}
func (o *headersObj) View(v *view.Vec, op view.MsgOpt) {
	view.HdrLst(v, &o.hl, op.Opt)
	if o.pv != nil {
		view.HdrVals(v, o.pv, op.Opt)
	}
}
func (o *headersObj) Reset() {
	o.hl.Reset()
	if o.pv != nil {
		o.pv.Reset()
	}
}
func (o *headersObj) State() uint32 {
	var s uint32
	n := o.hl.N
	if n < len(o.hl.Hdrs) {
		s = view.StHdr(&o.hl.Hdrs[n])
	} else {
		s = 0x80 | view.StHdrLstScratch(&o.hl)
	}
	if o.pv != nil {
		s |= pvState(o.pv) << 8
	}
	return s
}

// HL gives access to the header list.
func (o *headersObj) HL() *sipsp.HdrLst { return &o.hl }

// ---- name-addr values, driven value by value ----

type nameAddrObj struct {
	kind sipsp.HdrT
	fn   func(buf []byte, offs int, p *sipsp.PFromBody) (int, sipsp.ErrorHdr)
	cur  sipsp.PFromBody
	done []sipsp.PFromBody
}

func (o *nameAddrObj) Call(buf []byte, offs int) (int, sipsp.ErrorHdr) {
	for {
		var n int
		var err sipsp.ErrorHdr
		if o.fn != nil {
			n, err = o.fn(buf, offs, &o.cur)
		} else {
			n, err = sipsp.ParseNameAddrPVal(o.kind, buf, offs, &o.cur)
		}
		if err == sipsp.ErrHdrMoreValues && len(o.done) < 64 {
			// definitive for this value: keep it, continue with a fresh one
			o.done = append(o.done, o.cur)
			o.cur.Reset()
			offs = n
			continue
		}
		return n, err
	}
}
func (o *nameAddrObj) View(v *view.Vec, op view.MsgOpt) {
	v.I("values", int64(len(o.done)))
	for i := range o.done {
		view.FromP(v, fmt.Sprintf("val[%d].", i), &o.done[i])
	}
	view.FromP(v, "cur.", &o.cur)
}
func (o *nameAddrObj) Reset()        { o.cur.Reset(); o.done = o.done[:0] }
func (o *nameAddrObj) State() uint32 { return view.StFrom(&o.cur) }

// ---- all contacts / all PAIs ----

type contactsObj struct{ c sipsp.PContacts }

func (o *contactsObj) Call(buf []byte, offs int) (int, sipsp.ErrorHdr) {
	return sipsp.ParseAllContactValues(buf, offs, &o.c)
}
func (o *contactsObj) View(v *view.Vec, op view.MsgOpt) { view.Contacts(v, &o.c, op.Opt) }
func (o *contactsObj) Reset()                           { o.c.Reset() }
func (o *contactsObj) State() uint32 {
	n := o.c.N
	if n < len(o.c.Vals) {
		return view.StFrom(&o.c.Vals[n])
	}
	return 0x80 | view.StContactsScratch(&o.c)
}

type paisObj struct{ c sipsp.PPAIs }

func (o *paisObj) Call(buf []byte, offs int) (int, sipsp.ErrorHdr) {
	return sipsp.ParseAllPAIValues(buf, offs, &o.c)
}
func (o *paisObj) View(v *view.Vec, op view.MsgOpt) { view.PAIs(v, &o.c, op.Opt) }
func (o *paisObj) Reset()                           { o.c.Reset() }
func (o *paisObj) State() uint32 {
	n := o.c.N
	if n < len(o.c.Vals) {
		return view.StFrom(&o.c.Vals[n])
	}
	return 0x80 | view.StPAIsScratch(&o.c)
}

// ---- CSeq / Call-ID / unsigned ints ----

type cseqObj struct{ b sipsp.PCSeqBody }

func (o *cseqObj) Call(buf []byte, offs int) (int, sipsp.ErrorHdr) {
	return sipsp.ParseCSeqVal(buf, offs, &o.b)
}
func (o *cseqObj) View(v *view.Vec, op view.MsgOpt) { view.CSeq(v, &o.b) }
func (o *cseqObj) Reset()                           { o.b.Reset() }
func (o *cseqObj) State() uint32                    { return view.StCSeq(&o.b) }

type callidObj struct{ b sipsp.PCallIDBody }

func (o *callidObj) Call(buf []byte, offs int) (int, sipsp.ErrorHdr) {
	return sipsp.ParseCallIDVal(buf, offs, &o.b)
}
func (o *callidObj) View(v *view.Vec, op view.MsgOpt) { view.CallID(v, &o.b) }
func (o *callidObj) Reset()                           { o.b.Reset() }
func (o *callidObj) State() uint32                    { return view.StCallID(&o.b) }

type uintObj struct {
	b  sipsp.PUIntBody
	fn func(buf []byte, offs int, p *sipsp.PUIntBody) (int, sipsp.ErrorHdr)
}

func (o *uintObj) Call(buf []byte, offs int) (int, sipsp.ErrorHdr) {
	return o.fn(buf, offs, &o.b)
}
func (o *uintObj) View(v *view.Vec, op view.MsgOpt) { view.UInt(v, "UInt.", &o.b) }
func (o *uintObj) Reset()                           { o.b.Reset() }
func (o *uintObj) State() uint32                    { return view.StUInt(&o.b) }

// ---- token parameter, driven value by value (as GetViaBrSig does) ----

type tokObj struct {
	flags sipsp.POptFlags
	cur   sipsp.PTokParam
	done  []sipsp.PTokParam
}

func (o *tokObj) Call(buf []byte, offs int) (int, sipsp.ErrorHdr) {
	for {
		n, err := sipsp.ParseTokenParam(buf, offs, &o.cur, o.flags)
		if err == sipsp.ErrHdrMoreValues && len(o.done) < 64 {
			o.done = append(o.done, o.cur)
			o.cur.Reset()
			offs = n
			continue
		}
		return n, err
	}
}
func (o *tokObj) View(v *view.Vec, op view.MsgOpt) {
	v.I("values", int64(len(o.done)))
	for i := range o.done {
		v.Push(fmt.Sprintf("val[%d].", i))
		view.TokParam(v, &o.done[i])
		v.Pop()
	}
	v.Push("cur.")
	view.TokParam(v, &o.cur)
	v.Pop()
}
func (o *tokObj) Reset() { o.cur.Reset(); o.done = o.done[:0] }
func (o *tokObj) setEndInput(on bool) {
	o.flags &^= sipsp.POptInputEndF
	if on {
		o.flags |= sipsp.POptInputEndF
	}
}
func (o *tokObj) State() uint32 { return view.StTok(&o.cur) }

// ---- URI parameter / header list wrappers ----

type uriParamsObj struct {
	flags sipsp.POptFlags
	l     sipsp.URIParamsLst
	vno   int
}

func (o *uriParamsObj) Call(buf []byte, offs int) (int, sipsp.ErrorHdr) {
	n, vn, err := sipsp.ParseAllURIParams(buf, offs, &o.l, o.flags)
	o.vno += vn
	return n, err
}
func (o *uriParamsObj) View(v *view.Vec, op view.MsgOpt) {
	view.URIParams(v, &o.l, op.Opt)
	// (the second return value - "number of values parsed" - is not part of any statement: whether
	// it counts this call or the whole list is open, so it is kept out of the compared view)
}
func (o *uriParamsObj) Reset() { o.l.Reset(); o.vno = 0 }
func (o *uriParamsObj) setEndInput(on bool) {
	o.flags &^= sipsp.POptInputEndF
	if on {
		o.flags |= sipsp.POptInputEndF
	}
}
func (o *uriParamsObj) State() uint32 {
	n := o.l.N
	if n < len(o.l.Params) {
		return view.StTok(&o.l.Params[n].Param)
	}
	return 0x80 | view.StURIParamsScratch(&o.l)
}

type uriHdrsObj struct {
	flags sipsp.POptFlags
	l     sipsp.URIHdrsLst
	vno   int
}

func (o *uriHdrsObj) Call(buf []byte, offs int) (int, sipsp.ErrorHdr) {
	n, vn, err := sipsp.ParseAllURIHdrs(buf, offs, &o.l, o.flags)
	o.vno += vn
	return n, err
}
func (o *uriHdrsObj) View(v *view.Vec, op view.MsgOpt) {
	view.URIHdrs(v, &o.l, op.Opt)
	// (the second return value - "number of values parsed" - is not part of any statement: whether
	// it counts this call or the whole list is open, so it is kept out of the compared view)
}
func (o *uriHdrsObj) Reset() { o.l.Reset(); o.vno = 0 }
func (o *uriHdrsObj) setEndInput(on bool) {
	o.flags &^= sipsp.POptInputEndF
	if on {
		o.flags |= sipsp.POptInputEndF
	}
}
func (o *uriHdrsObj) State() uint32 {
	n := o.l.N
	if n < len(o.l.Hdrs) {
		return view.StTok((*sipsp.PTokParam)(&o.l.Hdrs[n]))
	}
	return 0x80 | view.StURIHdrsScratch(&o.l)
}

// ---- quoted string skipper (stateless: resumption state is the offset) ----

type quotedObj struct{}

func (o *quotedObj) Call(buf []byte, offs int) (int, sipsp.ErrorHdr) {
	return sipsp.SkipQuoted(buf, offs)
}
func (o *quotedObj) View(v *view.Vec, op view.MsgOpt) {}
func (o *quotedObj) Reset()                           {}
func (o *quotedObj) State() uint32                    { return 0 }

// ---- the table ----

func endInputFlag(c Cfg) bool { return c.Flags&sipsp.POptInputEndF != 0 }

// Parsers is the table of every exported incremental parser.
var Parsers = []*ParserDef{
	{Name: "ParseSIPMsg", Group: "msg", IsMsg: true, Stateful: true, New: newMsg,
		EndInput: func(c Cfg) bool { return c.MsgFlags&sipsp.SIPMsgNoMoreDataF != 0 }},
	{Name: "ParseFLine", Group: "fline", Stateful: true, EndInput: never,
		New: func(c Cfg) Obj { return &flineObj{} }},
	{Name: "ParseHdrLine", Group: "hdr", Stateful: true, EndInput: never,
		New: func(c Cfg) Obj { return &hdrLineObj{} }},
	{Name: "ParseHdrLine+PHdrVals", Group: "hdrpv", Stateful: true, EndInput: never,
		New: func(c Cfg) Obj {
			o := &hdrLineObj{pv: &sipsp.PHdrVals{}}
			o.pv.Init(mkContacts(c.ContactCap))
			return o
		}},
	{Name: "ParseHeaders", Group: "hdr", Stateful: true, EndInput: never,
		New: func(c Cfg) Obj {
			o := &headersObj{}
			o.hl.Hdrs = mkHdrs(c.HdrCap)
			return o
		}},
	{Name: "ParseHeaders+PHdrVals", Group: "hdrpv", Stateful: true, EndInput: never,
		New: func(c Cfg) Obj {
			o := &headersObj{pv: &sipsp.PHdrVals{}}
			o.hl.Hdrs = mkHdrs(c.HdrCap)
			o.pv.Init(mkContacts(c.ContactCap))
			return o
		}},
	{Name: "ParseFromVal", Group: "nameaddr", Stateful: true, EndInput: never,
		New: func(c Cfg) Obj { return &nameAddrObj{fn: sipsp.ParseFromVal} }},
	{Name: "ParseNameAddrPVal(To)", Group: "nameaddr", Stateful: true, EndInput: never,
		New: func(c Cfg) Obj { return &nameAddrObj{kind: sipsp.HdrTo} }},
	{Name: "ParseNameAddrPVal(Route)", Group: "nameaddr", Stateful: true, EndInput: never,
		New: func(c Cfg) Obj { return &nameAddrObj{kind: sipsp.HdrRoute} }},
	{Name: "ParseNameAddrPVal(Record-Route)", Group: "nameaddr", Stateful: true, EndInput: never,
		New: func(c Cfg) Obj { return &nameAddrObj{kind: sipsp.HdrRecordRoute} }},
	{Name: "ParseOneContact", Group: "nameaddr", Stateful: true, EndInput: never,
		New: func(c Cfg) Obj { return &nameAddrObj{fn: sipsp.ParseOneContact} }},
	{Name: "ParseOnePAI", Group: "nameaddr", Stateful: true, EndInput: never,
		New: func(c Cfg) Obj { return &nameAddrObj{fn: sipsp.ParseOnePAI} }},
	{Name: "ParseAllContactValues", Group: "nameaddr", Stateful: true, EndInput: never,
		New: func(c Cfg) Obj {
			o := &contactsObj{}
			o.c.Init(mkContacts(c.ContactCap))
			return o
		}},
	{Name: "ParseAllPAIValues", Group: "nameaddr", Stateful: true, EndInput: never,
		New: func(c Cfg) Obj { return &paisObj{} }},
	{Name: "ParseCSeqVal", Group: "cseq", Stateful: true, EndInput: never,
		New: func(c Cfg) Obj { return &cseqObj{} }},
	{Name: "ParseCallIDVal", Group: "callid", Stateful: true, EndInput: never,
		New: func(c Cfg) Obj { return &callidObj{} }},
	{Name: "ParseUIntVal", Group: "uint", Stateful: true, EndInput: never,
		New: func(c Cfg) Obj { return &uintObj{fn: sipsp.ParseUIntVal} }},
	{Name: "ParseCLenVal", Group: "uint", Stateful: true, EndInput: never,
		New: func(c Cfg) Obj { return &uintObj{fn: sipsp.ParseCLenVal} }},
	{Name: "ParseExpiresVal", Group: "uint", Stateful: true, EndInput: never,
		New: func(c Cfg) Obj { return &uintObj{fn: sipsp.ParseExpiresVal} }},
	{Name: "ParseTokenParam", Group: "tok", Stateful: true, EndInput: endInputFlag,
		New: func(c Cfg) Obj { return &tokObj{flags: c.Flags} }},
	{Name: "ParseAllURIParams", Group: "tok", Stateful: true, EndInput: endInputFlag,
		New: func(c Cfg) Obj {
			o := &uriParamsObj{flags: c.Flags}
			o.l.Init(make([]sipsp.URIParam, c.ParamCap, c.ParamCap+(1-c.ParamCap%2)*3))
			return o
		}},
	{Name: "ParseAllURIHdrs", Group: "tok", Stateful: true, EndInput: endInputFlag,
		New: func(c Cfg) Obj {
			o := &uriHdrsObj{flags: c.Flags}
			o.l.Init(make([]sipsp.URIHdr, c.ParamCap, c.ParamCap+(1-c.ParamCap%2)*3))
			return o
		}},
	{Name: "SkipQuoted", Group: "quoted", Stateful: false, EndInput: never,
		New: func(c Cfg) Obj { return &quotedObj{} }},
}

// ParserByName finds a table entry.
func ParserByName(n string) *ParserDef {
	for _, p := range Parsers {
		if p.Name == n {
			return p
		}
	}
	return nil
}

// IsErrVerdict tells whether e is an error verdict (not a success / more /
// end-of-header style indication).
func IsErrVerdict(e sipsp.ErrorHdr) bool {
	switch e {
	case sipsp.ErrHdrOk, sipsp.ErrHdrEOH, sipsp.ErrHdrEmpty, sipsp.ErrHdrMoreBytes, sipsp.ErrHdrMoreValues:
		return false
	}
	return true
}

// ---- decoding of the automaton states for the evidence ----

var fbNames = []string{"fbInit", "fbNameOrURI", "fbNameOrURIEnd", "fbName", "fbQuoted", "fbURI", "fbURIFound", "fbNewPossibleParam", "fbPossibleParamName",
	"fbPossibleParamNameEnd", "fbNewParam", "fbParamName", "fbParamNameEnd", "fbNewParamVal", "fbParamVal", "fbParamValEnd", "fbNewPossibleVal", "fbPossibleVal",
	"fbPossibleValEnd", "fbQuotedVal", "fbQuotedPossibleVal", "fbTagT", "fbTagA", "fbTagG", "fbTagEq", "fbTagVal", "fbPTagT", "fbPTagA", "fbPTagG", "fbPTagEq", "fbPTagVal", "fbStar", "fbFIN"}
var hNames = []string{"hInit", "hName", "hNameEnd", "hBodyStart", "hVal", "hValEnd", "hFrom", "hTo", "hCallID", "hCSeq", "hCLen", "hContact", "hExpires", "hPAI", "hFIN"}
var flNames = []string{"flInit", "flReqMethod", "flReqURI", "flReqVer", "flRplStatus", "flRplReason", "flCRLF", "flFIN"}
var csNames = []string{"csInit", "csFoundDigit", "csEndDigit", "csFoundMethod", "csEnd", "csFIN"}
var ciNames = []string{"ciInit", "ciFound", "ciEnd", "ciFIN"}
var clNames = []string{"clInit", "clFound", "clEnd", "clFIN"}
var tokNames = []string{"paramInit", "paramName", "paramFEq", "paramFVal", "paramVal", "paramFSep", "paramFNxt", "paramInitNxtVal", "paramQuotedVal", "paramERR", "paramFIN"}
var msgNames = []string{"Init", "FLine", "Headers", "Body", "Err", "NoCLen", "FIN"}

func nm(tbl []string, i uint32) string {
	if int(i) < len(tbl) {
		return tbl[i]
	}
	return fmt.Sprintf("state%d", i)
}

func pvName(s uint32) string {
	if s == 0 {
		return ""
	}
	which := []string{"", "From", "To", "Call-ID", "CSeq", "CLen", "Expires", "Contact[N]", "Contact(scratch)", "PAI[N]", "PAI(scratch)"}
	k := s >> 8
	sub := s & 0xff
	var t []string
	switch k {
	case 3:
		t = ciNames
	case 4:
		t = csNames
	case 5, 6:
		t = clNames
	default:
		t = fbNames
	}
	return nm(which, k) + ":" + nm(t, sub)
}

func hdrName(h uint32) string {
	if h&0x80 != 0 {
		return "scratch:" + nm(hNames, h&0x7f)
	}
	return nm(hNames, h)
}

// StateName renders an automaton state observed at a suspension point.
func StateName(parser string, st uint32) string {
	p := ParserByName(parser)
	if p == nil {
		return fmt.Sprint(st)
	}
	switch {
	case p.IsMsg:
		s := nm(msgNames, st>>24)
		if st>>24 == 1 {
			return s + "/" + nm(flNames, (st>>12)&0xf)
		}
		s += "/" + hdrName((st>>16)&0xff)
		if pv := pvName(st & 0xfff); pv != "" {
			s += "/" + pv
		}
		return s
	case p.Name == "ParseFLine":
		return nm(flNames, st)
	case p.Group == "hdr" || p.Group == "hdrpv":
		s := hdrName(st & 0xff)
		if pv := pvName(st >> 8); pv != "" {
			s += "/" + pv
		}
		return s
	case p.Group == "nameaddr":
		if st&0x80 != 0 {
			return "scratch:" + nm(fbNames, st&0x7f)
		}
		return nm(fbNames, st)
	case p.Group == "cseq":
		return nm(csNames, st)
	case p.Group == "callid":
		return nm(ciNames, st)
	case p.Group == "uint":
		return nm(clNames, st)
	case p.Group == "tok":
		if st&0x80 != 0 {
			return "scratch:" + nm(tokNames, st&0x7f)
		}
		return nm(tokNames, st)
	}
	return fmt.Sprint(st)
}

func init() { core.StateNamer = StateName }
