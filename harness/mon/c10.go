package mon

import (
	"fmt"
	"math/big"
	"strings"

	"github.com/intuitivelabs/sipsp"

	"verif/harness/core"
	"verif/harness/gen"
)

var (
	bigU32  = new(big.Int).SetUint64(0xffffffff)
	bigCLen = new(big.Int).SetUint64(1 << 24)
	bigPort = new(big.Int).SetUint64(65535)
)

// canonical: a digit string without superfluous leading zeros. Only for those does the
// monitor insist that an in-range value is ACCEPTED (the statement is about exactness and
// rejection of what does not fit; refusing padded forms would not contradict it).
func canonical(s string) bool { return s == "0" || (len(s) > 0 && s[0] != '0') }

func bigOf(s string) *big.Int {
	v, ok := new(big.Int).SetString(s, 10)
	if !ok {
		panic("harness: not a digit string: " + s)
	}
	return v
}

// driveAll parses buf with object o along cuts and returns the definitive result.
func driveAll(o Obj, buf []byte, cuts []int) (int, sipsp.ErrorHdr, string) {
	n, e, _, pan := drive(o, buf, 0, cuts)
	return n, e, pan
}

type numFail struct {
	cls, what string
	in        []byte
	finding   string
}

// numSchedules returns one-shot plus cuts inside the digits.
func numSchedules(rr *core.Rand, n, ds, de int) [][]int {
	out := [][]int{{n}}
	if de > ds {
		out = append(out, []int{ds + rr.Intn(de-ds+1), n})
		c := []int{}
		for i := ds; i <= de && i <= n; i++ {
			c = append(c, i)
		}
		out = append(out, append(c, n))
	}
	out = append(out, CutsRandom(nil, rr, 0, n, 3))
	return out
}

func checkNumber(w *core.Worker, rr *core.Rand, s string) {
	v := bigOf(s)
	fail := func(cls, what string, in []byte, finding string) {
		w.Fail(cls, func() *core.Violation {
			x := core.V(what, in, map[string]any{"digits": s, "value": v.String()})
			x.Finding = finding
			return x
		})
	}
	// --- CSeq ---
	{
		in := []byte(" " + s + " INVITE\r\nX")
		for _, cuts := range numSchedules(rr, len(in), 1, 1+len(s)) {
			o := &cseqObj{}
			_, e, pan := driveAll(o, in, cuts)
			w.Eval(1)
			if pan != "" {
				continue
			}
			switch {
			case e == sipsp.ErrHdrOk:
				w.Inc("cseq_accepted")
				got := new(big.Int).SetUint64(uint64(o.b.CSeqNo))
				txt := string(o.b.CSeq.Get(in))
				if got.Cmp(v) != 0 || txt != s {
					fail("cseq-wrong-number", fmt.Sprintf("ParseCSeqVal(%q) succeeded with CSeqNo=%d, CSeq field %q; the digit string is %s", in, o.b.CSeqNo, txt, s), in, "D2")
				}
			case v.Cmp(bigU32) > 0:
				w.Inc("cseq_rejected_out_of_range")
			}
			if v.Cmp(bigU32) <= 0 && canonical(s) && e != sipsp.ErrHdrOk {
				fail("cseq-rejects-valid", fmt.Sprintf("ParseCSeqVal(%q) -> %s although %s fits 32 bits and 10 digits", in, errName(e), s), in, "")
			}
		}
	}
	// --- Content-Length / Expires / plain uint ---
	for which, name := range []string{"ParseCLenVal", "ParseExpiresVal", "ParseUIntVal"} {
		in := []byte(" " + s + " \r\nX")
		for _, cuts := range numSchedules(rr, len(in), 1, 1+len(s)) {
			o := &uintObj{fn: []func([]byte, int, *sipsp.PUIntBody) (int, sipsp.ErrorHdr){sipsp.ParseCLenVal, sipsp.ParseExpiresVal, sipsp.ParseUIntVal}[which]}
			_, e, pan := driveAll(o, in, cuts)
			w.Eval(1)
			if pan != "" {
				continue
			}
			limit := bigU32
			if which == 0 {
				limit = bigCLen
			}
			inRange := v.Cmp(limit) <= 0 && (which != 0 || len(s) <= 9)
			if e == sipsp.ErrHdrOk {
				w.Inc("uint_accepted")
				got := new(big.Int).SetUint64(uint64(o.b.UIVal))
				txt := string(o.b.SVal.Get(in))
				if got.Cmp(v) != 0 || txt != s {
					fail("uint-wrong-number/"+name, fmt.Sprintf("%s(%q) succeeded with UIVal=%d, SVal %q; the digit string is %s", name, in, o.b.UIVal, txt, s), in, "D3")
				} else if !inRange {
					fail("uint-out-of-range-accepted/"+name, fmt.Sprintf("%s(%q) succeeded although %s is outside the documented range", name, in, s), in, "")
				}
			} else if inRange && canonical(s) {
				fail("uint-rejects-valid/"+name, fmt.Sprintf("%s(%q) -> %s although %s is in range", name, in, errName(e), s), in, "")
			} else if !inRange {
				w.Inc("uint_rejected_out_of_range")
			}
		}
	}
	// --- contact expires / q ---
	{
		forms := []string{" <sip:a>;expires=" + s + "\r\nX", "sip:a ; Expires = " + s + " ;x=1\r\nX", "<sip:a>;q=0.1;expires=" + s + ", <sip:b>\r\nX"}
		for fi, f := range forms {
			in := []byte(f)
			ds := strings.Index(f, s+" ;")
			_ = ds
			p := strings.LastIndex(f, "="+s) + 1
			for _, cuts := range numSchedules(rr, len(in), p, p+len(s)) {
				o := &nameAddrObj{fn: sipsp.ParseOneContact}
				_, e, pan := driveAll(o, in, cuts)
				w.Eval(1)
				if pan != "" {
					continue
				}
				if e != sipsp.ErrHdrOk {
					fail("contact-expires-rejected", fmt.Sprintf("ParseOneContact(%q) -> %s", in, errName(e)), in, "")
					continue
				}
				pf := &o.cur
				if fi == 2 {
					pf = &o.done[0]
				}
				want := uint32(0xffffffff)
				if v.Cmp(bigU32) < 0 {
					want = uint32(v.Uint64())
				}
				w.Inc("contact_expires_seen")
				if !pf.HasExpires || pf.Expires != want {
					fail("contact-expires-wrong", fmt.Sprintf("contact %q: HasExpires=%v Expires=%d; the digit string %s must give %d (saturating at 2^32-1)", in, pf.HasExpires, pf.Expires, s, want), in, "D4")
				}
			}
		}
		// q: integer part s; decimals
		type qc struct {
			txt  string
			ok   bool
			want uint16
		}
		var qs []qc
		isZero := v.Sign() == 0
		isOne := v.Cmp(big.NewInt(1)) == 0
		qs = append(qs, qc{s, isZero || isOne, map[bool]uint16{true: 1000, false: 0}[isOne]})
		if len(s) <= 3 {
			d := int(v.Int64())
			for k := len(s); k < 3; k++ {
				d *= 10
			}
			qs = append(qs, qc{"0." + s, true, uint16(d)})
			qs = append(qs, qc{"1." + s, isZero, 1000})
			qs = append(qs, qc{s + ".5", isZero, 500})
		} else {
			qs = append(qs, qc{"0." + s, false, 0})
			qs = append(qs, qc{s + ".25", isZero, 250})
		}
		for _, q := range qs {
			in := []byte("<sip:a>;q=" + q.txt + "\r\nX")
			o := &nameAddrObj{fn: sipsp.ParseOneContact}
			_, e, pan := driveAll(o, in, []int{len(in)})
			w.Eval(1)
			if pan != "" || e != sipsp.ErrHdrOk {
				if pan == "" {
					fail("contact-q-rejected", fmt.Sprintf("ParseOneContact(%q) -> %s", in, errName(e)), in, "")
				}
				continue
			}
			w.Inc("contact_q_seen")
			if q.ok {
				if o.cur.Q != q.want {
					fail("contact-q-wrong", fmt.Sprintf("contact %q: Q=%d, expected %d", in, o.cur.Q, q.want), in, "D4")
				}
			} else if o.cur.Q != 0 || o.cur.ParamErr == 0 {
				fail("contact-q-not-flagged", fmt.Sprintf("contact %q: q is out of range / too long, but Q=%d ParamErr=%s (must stay unset and be flagged)", in, o.cur.Q, errName(o.cur.ParamErr)), in, "D4")
			}
		}
	}
	// --- URI port ---
	for _, f := range []string{"sip:h:%s", "sip:u@h:%s", "sip:h:%s;p=1", "sip:h:%s?a=b", "sips:u:pw@[::1]:%s;lr", "sip:u@h:%s?x", "sip:1:2@[2001:db8::1]:%s", "sip:7:65@h:%s", "sip:12@10.0.0.1:%s;x", "sip:[::1]:%s"} {
		in := []byte(fmt.Sprintf(f, s))
		var u sipsp.PsipURI
		var e sipsp.ErrorURI
		pan, _, _ := core.Guard(func() { e, _ = sipsp.ParseURI(in, &u) })
		w.Eval(1)
		if pan {
			continue
		}
		if e == sipsp.NoURIErr {
			w.Inc("port_accepted")
			txt := string(u.Port.Get(in))
			if txt != s || new(big.Int).SetUint64(uint64(u.PortNo)).Cmp(v) != 0 {
				fail("port-wrong", fmt.Sprintf("ParseURI(%q) succeeded with PortNo=%d Port=%q; the digit string is %s", in, u.PortNo, txt, s), in, "D5")
			}
		} else if v.Cmp(bigPort) <= 0 && canonical(s) {
			fail("port-rejects-valid", fmt.Sprintf("ParseURI(%q) -> %v although port %s <= 65535", in, e, s), in, "")
		} else if v.Cmp(bigPort) > 0 {
			w.Inc("port_rejected_out_of_range")
		}
	}
	// --- Content-Length as a header of a whole message (skip-body, so only the number matters),
	// one-shot and with every cut inside the digits ---
	for _, hn := range []string{"Content-Length: ", "l:", "CONTENT-LENGTH :\t"} {
		pre := "OPTIONS sip:r SIP/2.0\r\nCSeq: 1 OPTIONS\r\n" + hn
		in := []byte(pre + s + "\r\n\r\n")
		cuts := append(CutsEveryPrefix(nil, len(pre), len(pre)+len(s)), len(in))
		inRange := v.Cmp(bigCLen) <= 0 && len(s) <= 9
		for _, cs := range [][]int{{len(in)}, cuts} {
			o := newMsg(Cfg{HdrCap: -1, ContactCap: -1, MsgFlags: sipsp.SIPMsgSkipBodyF}).(*msgObj)
			_, e, pan := driveAll(o, in, cs)
			w.Eval(1)
			if pan != "" {
				continue
			}
			if e == sipsp.ErrHdrOk {
				w.Inc("message_clen_accepted")
				got := new(big.Int).SetUint64(uint64(o.m.PV.CLen.UIVal))
				if got.Cmp(v) != 0 || !inRange {
					fail("message-clen", fmt.Sprintf("message with %q%s accepted (delivered in %d pieces): Content-Length reported as %d; the documented range is <= 2^24 and at most 9 digits", hn, s, len(cs), o.m.PV.CLen.UIVal), in, "")
				}
			} else if inRange && canonical(s) {
				fail("message-rejects-valid", fmt.Sprintf("message with Content-Length %s rejected: %s", s, errName(e)), in, "")
			}
		}
	}
	// --- inside a whole message, chunked through the digits ---
	{
		pre := "REGISTER sip:r SIP/2.0\r\nCSeq: "
		mid := " REGISTER\r\nExpires: "
		mid2 := "\r\nContact: <sip:a>;expires="
		mid3 := ";q=0.5\r\nl: 0\r\n\r\n"
		in := []byte(pre + s + mid + s + mid2 + s + mid3)
		cuts := CutsEveryPrefix(nil, len(pre), len(pre)+len(s))
		cuts = append(cuts, CutsEveryPrefix(nil, len(pre)+len(s)+len(mid), len(pre)+2*len(s)+len(mid))...)
		cuts = append(cuts, len(in))
		for _, cs := range [][]int{{len(in)}, cuts} {
			o := newMsg(DefCfg).(*msgObj)
			_, e, pan := driveAll(o, in, cs)
			w.Eval(1)
			if pan != "" {
				continue
			}
			m := &o.m
			if e == sipsp.ErrHdrOk {
				w.Inc("message_accepted")
				if new(big.Int).SetUint64(uint64(m.PV.CSeq.CSeqNo)).Cmp(v) != 0 || new(big.Int).SetUint64(uint64(m.PV.Expires.UIVal)).Cmp(v) != 0 {
					fail("message-wrong-number", fmt.Sprintf("message accepted with CSeqNo=%d Expires=%d for the digit string %s", m.PV.CSeq.CSeqNo, m.PV.Expires.UIVal, s), in, "D2")
				}
				want := uint32(0xffffffff)
				if v.Cmp(bigU32) < 0 {
					want = uint32(v.Uint64())
				}
				if c := m.PV.Contacts.GetContact(0); c == nil || c.Expires != want {
					fail("message-contact-expires", fmt.Sprintf("message: contact expires for %s must be %d", s, want), in, "D4")
				}
				mx, _ := m.PV.MaxExpires()
				if mx != want && v.Cmp(bigU32) <= 0 {
					fail("message-max-expires", fmt.Sprintf("message: MaxExpires()=%d for %s", mx, s), in, "")
				}
			} else if v.Cmp(bigU32) <= 0 && canonical(s) {
				fail("message-rejects-valid", fmt.Sprintf("message with CSeq/Expires %s rejected: %s", s, errName(e)), in, "")
			}
		}
	}
}

// RunC10 is the monitor for C10.
func RunC10(r *core.Run) {
	r.Rule = "case = one digit string (length 1..40) placed in every numeric position: CSeq, Content-Length, Expires, plain uint, contact expires (3 carriers), contact q (integer and decimal forms), URI port (10 carriers incl. the user:pass-ambiguous path, numeric passwords and bracketed hosts; plus an exhaustive family where every accepted URI's PortNo must equal its Port text), and a whole message (CSeq + Expires + contact expires), one-shot and with cuts inside the digits; oracle = math/big value of the digit string: success => reported number == value, reported text == digits, value within the documented range; out of range => rejected / saturated (contact expires) / unset and flagged (q); in-range values written without leading zeros must be accepted (padded forms may be refused); non-trivial = every digit string (each is placed in ~60 parser runs); distinct by construction (the string set is duplicate free)"
	r.Assume = []string{"documented ranges: CSeq, Expires 2^32-1 (CSeq at most 10 digits); Content-Length <= 2^24 and at most 9 digits; port <= 65535; q in [0,1] with at most 3 decimals; contact expires saturates at 2^32-1"}
	rr0 := core.NewRand(r.Seed, 0xC10)
	nums := gen.NumStrings(rr0, int(r.Pick(30000, 6000000)))
	r.Extra["digit_strings"] = len(nums)
	st := r.Stage("numbers-in-every-position", int64(len(nums)), func(w *core.Worker, idx int64) {
		rr := core.NewRand(r.Seed, 0xC10, 1, uint64(idx))
		checkNumber(w, rr, nums[idx])
		w.NontrivialEnum()
		if idx%977 == 0 {
			w.Sample("numbers", nums[idx])
		}
	})
	st.Space = "boundary neighbourhoods (±3) of 2^8,2^16,2^24,2^31,2^32,10^9,10^10,10^19,10^20,2^63,2^64,2^67 and of k*2^16,k*2^32,k*2^64 (k<=12) with 0/1/2/5/11/25 leading zeros; wrap residues k*2^n+small; all-9 / all-0 / 10^k strings of every length 1..40; 0..300; plus seed-derived random digit strings"
	// sequences of contact parameters: each numeric parameter must be judged from ITS digits only,
	// whatever stood before it (a rejected q, a value-less expires / tag / q, other parameters)
	r.Stage("contact-parameter-sequences", r.Pick(400000, 30000000), func(w *core.Worker, idx int64) {
		rr := core.NewRand(r.Seed, 0xC10, 7, uint64(idx))
		checkParamSequence(w, rr, nums)
	})
	// status codes: all 1000
	st = r.Stage("status-codes", 1000, func(w *core.Worker, idx int64) {
		code := fmt.Sprintf("%03d", idx)
		in := []byte("SIP/2.0 " + code + " r\r\nXXXXXXXXXXXX")
		var fl sipsp.PFLine
		var e sipsp.ErrorHdr
		pan, _, _ := core.Guard(func() { _, e = sipsp.ParseFLine(in, 0, &fl) })
		w.Eval(1)
		if pan {
			return
		}
		if e != sipsp.ErrHdrOk || int(fl.Status) != int(idx) || string(fl.StatusCode.Get(in)) != code {
			w.Fail("status-wrong", func() *core.Violation {
				return core.V(fmt.Sprintf("ParseFLine(%q) -> %s, Status=%d StatusCode=%q", in, errName(e), fl.Status, fl.StatusCode.Get(in)), in, nil)
			})
		}
		w.NontrivialEnum()
	})
	st.Exhaustive = true
	st.Space = "all status codes 000..999"
	// URI port: for EVERY accepted URI of an exhaustive family the reported number
	// must be the decimal value of the reported port text (whatever else the URI holds:
	// numeric passwords, bracketed hosts, ...)
	// (the second family found D17 at length 8 in the thorough tier; quick now reaches it too)
	for _, fam := range []struct {
		alpha  string
		lq, lt int
	}{{":@[]1", 10, 11}, {":@[]1;a?", 8, 9}} {
		L := fam.lq
		if !r.Quick() {
			L = fam.lt
		}
		es := NewEnum(fam.alpha, L)
		st = r.Stage("uri-port-invariant/"+fam.alpha, es.Size()*3, func(w *core.Worker, idx int64) {
			s := sc(w)
			s.buf = append(s.buf[:0], []string{"sip:", "sips:", "tel:"}[idx%3]...)
			s.buf = es.appendStr(s.buf, idx/3)
			var u sipsp.PsipURI
			var e sipsp.ErrorURI
			pan, _, _ := core.Guard(func() { e, _ = sipsp.ParseURI(s.buf, &u) })
			w.Eval(1)
			if pan || e != sipsp.NoURIErr || int(u.Port.Offs)+int(u.Port.Len) > len(s.buf) {
				return
			}
			txt := u.Port.Get(s.buf)
			want := uint64(0)
			for _, c := range txt {
				if c < '0' || c > '9' {
					return // not a digit string: nothing to compare
				}
				if want <= 1<<40 {
					want = want*10 + uint64(c-'0')
				}
			}
			if len(txt) == 0 && u.PortNo == 0 {
				return
			}
			w.Inc("ports_compared")
			if uint64(u.PortNo) != want || want > 65535 {
				in := append([]byte(nil), s.buf...)
				w.Fail("port-number-vs-text", func() *core.Violation {
					return core.V(fmt.Sprintf("ParseURI(%q) accepted with Port=%q but PortNo=%d", in, txt, u.PortNo), in, nil)
				})
			}
			w.NontrivialEnum()
		})
		st.Exhaustive = true
		st.Space = es.Desc() + " after sip:, sips: and tel:"
	}
	r.Require("C10 accepted CSeq values", r.Counter("cseq_accepted"), 500)
	r.Require("C10 rejected out-of-range uint values", r.Counter("uint_rejected_out_of_range"), 500)
	r.Require("C10 contact expires judged", r.Counter("contact_expires_seen"), 500)
	r.Require("C10 ports accepted", r.Counter("port_accepted"), 200)
}

// checkParamSequence: one contact value with 2..5 parameters (each known name at most once).
func checkParamSequence(w *core.Worker, rr *core.Rand, nums []string) {
	pick := func() string { return nums[rr.Intn(len(nums))] }
	type want struct {
		hasExp bool
		exp    uint32
		qSet   bool // q present with a value
		qOK    bool
		q      uint16
		tag    string
	}
	var wt want
	var sb strings.Builder
	sb.WriteString([]string{"<sip:a>", "sip:a", "\"n\" <sip:a@b;x=1>"}[rr.Intn(3)])
	names := []string{"q", "expires", "tag", "x", "y"}
	// a random order of a random subset
	for i := len(names) - 1; i > 0; i-- {
		j := rr.Intn(i + 1)
		names[i], names[j] = names[j], names[i]
	}
	k := rr.Range(2, 5)
	for _, nm := range names[:k] {
		sb.WriteString([]string{";", " ; ", ";\t"}[rr.Intn(3)])
		sb.WriteString(gen.RandCase(rr, nm))
		valueless := rr.Intn(4) == 0
		if valueless {
			if rr.Intn(3) == 0 {
				sb.WriteString("=") // "name=" with nothing after it
			}
			continue
		}
		sb.WriteString([]string{"=", " = ", "=\t"}[rr.Intn(3)])
		switch nm {
		case "expires":
			s := pick()
			sb.WriteString(s)
			wt.hasExp = true
			wt.exp = 0xffffffff
			if v := bigOf(s); v.Cmp(bigU32) < 0 {
				wt.exp = uint32(v.Uint64())
			}
		case "q":
			var s string
			switch rr.Intn(5) {
			case 0:
				s = pick() // integer part only: fine iff 0 or 1
			case 1:
				s = pick() + "." + []string{"", "0", "5", "25", "125"}[rr.Intn(5)]
			case 2:
				s = "0." + pick()
			case 3:
				s = "1." + []string{"", "0", "00", "000", "1", "0000"}[rr.Intn(6)]
			default:
				s = []string{"0", "1", "0.5", ".5", "1.", "0.999", "0.125"}[rr.Intn(7)]
			}
			sb.WriteString(s)
			wt.qSet = true
			wt.qOK, wt.q = refQ(s)
		case "tag":
			t := string(rr.Bytes(rr.Range(1, 8), []byte("abcXYZ0189-.")))
			sb.WriteString(t)
			wt.tag = t
		default:
			sb.WriteString(pick())
		}
	}
	sb.WriteString("\r\nX")
	in := []byte(sb.String())
	o := &nameAddrObj{fn: sipsp.ParseOneContact}
	cuts := []int{len(in)}
	if rr.Bool() {
		cuts = CutsRandom(nil, rr, 0, len(in), rr.Range(1, 4))
	}
	_, e, pan := driveAll(o, in, cuts)
	w.Eval(1)
	if pan != "" {
		w.Inc("panicked(left to C04)")
		return
	}
	fail := func(cls, what string) {
		w.Fail(cls, func() *core.Violation { return core.V(what, in, map[string]any{"cuts": cuts}) })
	}
	if e != sipsp.ErrHdrOk {
		fail("sequence-rejected", fmt.Sprintf("ParseOneContact(%q) -> %s: every parameter is syntactically fine", in, errName(e)))
		return
	}
	w.Inc("sequences_accepted")
	w.Nontrivial(core.HashBytes(in))
	pf := &o.cur
	if pf.HasExpires != wt.hasExp || (wt.hasExp && pf.Expires != wt.exp) || (!wt.hasExp && pf.Expires != 0) {
		fail("sequence-expires", fmt.Sprintf("contact %q: HasExpires=%v Expires=%d, the written expires parameter gives present=%v value=%d", in, pf.HasExpires, pf.Expires, wt.hasExp, wt.exp))
		return
	}
	if wt.qSet && wt.qOK && pf.Q != wt.q {
		fail("sequence-q", fmt.Sprintf("contact %q: Q=%d, the written q gives %d", in, pf.Q, wt.q))
		return
	}
	if (!wt.qSet || !wt.qOK) && pf.Q != 0 {
		fail("sequence-q-unset", fmt.Sprintf("contact %q: Q=%d although q is absent, value-less or out of range", in, pf.Q))
		return
	}
	if wt.qSet && !wt.qOK && pf.ParamErr == 0 {
		fail("sequence-q-not-flagged", fmt.Sprintf("contact %q: the q value is out of range but ParamErr is not set", in))
		return
	}
	if got := string(pf.Tag.Get(in)); got != wt.tag {
		fail("sequence-tag", fmt.Sprintf("contact %q: Tag=%q, written %q", in, got, wt.tag))
	}
}

// refQ judges a q value text: integer part 0 or 1 (any number of leading zeros is a number too),
// at most three decimals, value <= 1.
func refQ(s string) (ok bool, q uint16) {
	dot := strings.IndexByte(s, '.')
	ip, dp := s, ""
	if dot >= 0 {
		ip, dp = s[:dot], s[dot+1:]
	}
	if len(s)-maxInt0(dot) > 4 && dot >= 0 || len(dp) > 3 {
		return false, 0
	}
	for _, c := range ip + dp {
		if c < '0' || c > '9' {
			return false, 0
		}
	}
	iv := big.NewInt(0)
	if ip != "" {
		iv = bigOf(ip)
	}
	d := 0
	for _, c := range dp {
		d = d*10 + int(c-'0')
	}
	for k := len(dp); k < 3; k++ {
		d *= 10
	}
	switch {
	case iv.Sign() == 0:
		return true, uint16(d)
	case iv.Cmp(big.NewInt(1)) == 0 && d == 0:
		return true, 1000
	}
	return false, 0
}

func maxInt0(a int) int {
	if a < 0 {
		return 0
	}
	return a
}
