package mon

import (
	"bytes"
	"fmt"
	"strconv"

	"github.com/intuitivelabs/sipsp"

	"verif/harness/core"
	"verif/harness/gen"
	"verif/harness/view"
)

// framedMsg builds head || body with a declared Content-Length (or none).
// declared < 0: no Content-Length header.
func framedMsg(rr *core.Rand, declared, avail int) (raw []byte, H int) {
	m := gen.Msg(rr, gen.MsgOpts{MinHdrs: 1, MaxHdrs: 7, CLenMode: 1, NoBody: true, MultiNA: 30})
	head := m.Raw[:m.HdrEnd]
	// find the blank line start: headers end at the last header's Line.E
	lastE := m.Hdrs[len(m.Hdrs)-1].Line.E
	out := append([]byte(nil), head[:lastE]...)
	if declared >= 0 {
		name := []string{"Content-Length", "l", "content-length", "L", "CONTENT-LENGTH"}[rr.Intn(5)]
		num := strconv.Itoa(declared)
		if rr.Intn(8) == 0 && len(num) < 8 {
			num = "0" + num
		}
		line := name + []string{":", ": ", " : ", ":\t"}[rr.Intn(4)] + num + []string{"", " ", " \t"}[rr.Intn(3)] + "\r\n"
		// place it at a random header boundary
		pos := lastE
		if k := rr.Intn(len(m.Hdrs) + 1); k < len(m.Hdrs) {
			pos = m.Hdrs[k].Line.S
		}
		if pos > m.FLEnd && out[pos-1] == '\r' {
			// previous line ends with a lone CR: inserting a line is still fine (names never start with LF)
		}
		out = append(out[:pos:pos], append([]byte(line), out[pos:]...)...)
		if rr.Intn(5) == 0 {
			// a second Content-Length later in the block (other value, maybe folded): the first one counts
			l2 := []string{"Content-Length", "l", "CONTENT-length"}[rr.Intn(3)] + []string{": ", ":", ":\r\n "}[rr.Intn(3)] + strconv.Itoa(rr.Intn(300)) + "\r\n"
			at := len(out)
			out = append(out[:at:at], []byte(l2)...)
		}
	}
	out = append(out, head[lastE:]...) // blank line
	H = len(out)
	for i := 0; i < avail; i++ {
		switch x := rr.Intn(16); {
		case x == 0:
			out = append(out, '\r')
		case x == 1:
			out = append(out, '\n')
		case x == 2:
			out = append(out, byte(rr.Intn(256)))
		default:
			out = append(out, "SIP/2.0 INVITE:abc\r\n"[rr.Intn(20)])
		}
	}
	return out, H
}

// expectFraming is the table of the statement.
func expectFraming(flags uint8, H, declared, total int) (e sipsp.ErrorHdr, offs int, bodyLen int, parsed bool) {
	skip := flags&sipsp.SIPMsgSkipBodyF != 0
	req := flags&sipsp.SIPMsgCLenReqF != 0
	nomore := flags&sipsp.SIPMsgNoMoreDataF != 0
	avail := total - H
	switch {
	case skip && req && declared < 0:
		return sipsp.ErrHdrNoCLen, H, 0, false
	case skip:
		return sipsp.ErrHdrOk, H, 0, true
	case declared >= 0 && declared <= avail:
		return sipsp.ErrHdrOk, H + declared, declared, true
	case declared >= 0 && nomore:
		return sipsp.ErrHdrOk, total, avail, true
	case declared >= 0:
		return sipsp.ErrHdrMoreBytes, H, 0, false
	case req:
		return sipsp.ErrHdrOk, H, 0, true
	}
	return sipsp.ErrHdrOk, total, avail, true
}

func checkFraming(w *core.Worker, raw []byte, H, declared int, flags uint8, cfg Cfg) bool {
	return checkFramingLate(w, raw, H, declared, flags, cfg, -1)
}

// checkFramingLate: late >= 0 delivers raw[:late] first with the no-more-data flag OFF (a
// receiver only learns at the end that nothing more will come); when that call suspends, the
// same object gets the whole buffer with the flags of the case. The result must be the one of
// the table for (flags, whole buffer).
func checkFramingLate(w *core.Worker, raw []byte, H, declared int, flags uint8, cfg Cfg, late int) bool {
	o := newMsg(cfg).(*msgObj)
	var n int
	var e sipsp.ErrorHdr
	var pan, stk string
	if late >= 0 {
		o.flags = flags &^ sipsp.SIPMsgNoMoreDataF
		n, e, pan, stk = safeCall(o, isoCopy(raw[:late]), 0)
		if pan == "" && e != sipsp.ErrHdrMoreBytes {
			return true // definitive on the partial delivery: judged by the one-shot cases
		}
		w.Inc("late_no_more_data_flag_runs")
		o.flags = flags
		if pan == "" {
			n, e, pan, stk = safeCall(o, raw, n)
		}
	} else {
		n, e, pan, stk = safeCall(o, raw, 0)
	}
	w.Eval(1)
	we, wo, wb, wp := expectFraming(flags, H, declared, len(raw))
	fail := func(what string) bool {
		w.Fail("framing", func() *core.Violation {
			v := core.V(fmt.Sprintf("flags=%d (skip-body=%v clen-required=%v no-more-data=%v; first %d bytes delivered without the no-more-data flag: -1 = no such call) Content-Length=%d, %d bytes after the blank line (offset %d): %s; got verdict %s offset %d Body=%v Parsed()=%v",
				flags, flags&1 != 0, flags&2 != 0, flags&4 != 0, late, declared, len(raw)-H, H, what, errName(e), n, o.m.Body, o.m.Parsed()), raw,
				map[string]any{"flags": flags, "declared": declared, "headers_end": H, "len": len(raw)})
			v.Stack = stk
			return v
		})
		return false
	}
	if pan != "" {
		return fail("panic " + pan)
	}
	if e != we || n != wo {
		return fail(fmt.Sprintf("expected verdict %s and offset %d", errName(we), wo))
	}
	// the same verdict seen through the error interface (a missing Content-Length must be
	// reported as such there, too)
	if ec := e.ErrorConv(); (e == sipsp.ErrHdrOk && ec != nil) || (e != sipsp.ErrHdrOk && (ec == nil || ec.Error() != e.Error())) {
		return fail(fmt.Sprintf("verdict %s converts to the error value %v", errName(e), ec))
	}
	m := &o.m
	// Parsed() must say "done" exactly when success was reported; what it says after the
	// no-Content-Length verdict is not stated
	if (e == sipsp.ErrHdrOk || e == sipsp.ErrHdrMoreBytes) && m.Parsed() != wp {
		return fail(fmt.Sprintf("expected Parsed()=%v", wp))
	}
	if e == sipsp.ErrHdrOk {
		if int(m.Body.Offs) != H || int(m.Body.Len) != wb {
			return fail(fmt.Sprintf("expected Body {%d,%d}", H, wb))
		}
		if !bytes.Equal(m.RawMsg, raw[:n]) || !bytes.Equal(m.Buf, raw[:n]) {
			return fail(fmt.Sprintf("expected RawMsg = Buf = buf[:%d] (got lengths %d / %d)", n, len(m.RawMsg), len(m.Buf)))
		}
	}
	// (which views are filled in after the no-Content-Length verdict is not stated: not judged)
	return true
}

// pipeline concatenates k framed messages and parses them one after another.
func checkPipeline(w *core.Worker, rr *core.Rand, k int, reuse bool, chunked bool) bool {
	type one struct {
		raw []byte
		H   int
	}
	var msgs []one
	var stream []byte
	flags := uint8(0)
	if rr.Intn(3) == 0 {
		flags = sipsp.SIPMsgCLenReqF
	}
	for i := 0; i < k; i++ {
		bl := rr.Intn(40)
		if rr.Intn(4) == 0 {
			bl = 0
		}
		raw, H := framedMsg(rr, bl, bl)
		msgs = append(msgs, one{raw, H})
		stream = append(stream, raw...)
	}
	tail := rr.Intn(12)
	stream = append(stream, "INVITE sip:x SIP/2.0\r\n"[:tail]...)
	cfg := Cfg{HdrCap: []int{-1, 0, 2, 30}[rr.Intn(4)], ContactCap: []int{-1, 0, 1, 8}[rr.Intn(4)], MsgFlags: flags}
	s := sc(w)
	var U Obj
	offs := 0
	total := 0
	fail := func(i int, what string) bool {
		w.Fail("pipeline", func() *core.Violation {
			return core.V(fmt.Sprintf("pipelined stream of %d messages (reused+Reset object: %v, chunked delivery: %v), message %d: %s", k, reuse, chunked, i, what), stream,
				map[string]any{"k": k, "flags": flags, "hdr_cap": cfg.HdrCap, "contact_cap": cfg.ContactCap})
		})
		return false
	}
	for i := 0; i < k; i++ {
		if U == nil || !reuse {
			U = newMsg(cfg)
		} else {
			if pan, msg, _ := core.Guard(func() { U.Reset() }); pan {
				return fail(i, "Reset panicked: "+msg)
			}
		}
		// deliver the stream: one-shot (whole stream visible) or in random pieces
		var n int
		var e sipsp.ErrorHdr
		var pan string
		var seen int
		if !chunked {
			n, e, pan, _ = safeCall(U, stream, offs)
			seen = len(stream)
		} else {
			cuts := CutsRandom(nil, rr, offs, len(stream), rr.Range(1, 6))
			o := offs
			for _, c := range cuts {
				n, e, pan, _ = safeCall(U, isoCopy(stream[:c]), o)
				seen = c
				if pan != "" || e != sipsp.ErrHdrMoreBytes {
					break
				}
				o = n
			}
		}
		w.Eval(1)
		if pan != "" {
			return fail(i, "panic "+pan)
		}
		want := offs + len(msgs[i].raw)
		if e != sipsp.ErrHdrOk || n != want {
			return fail(i, fmt.Sprintf("parsed from offset %d: verdict %s offset %d, expected OK and %d (the end of this message)", offs, errName(e), n, want))
		}
		// the same message parsed alone
		A := newMsg(cfg)
		na, ea, pana, _ := safeCall(A, msgs[i].raw, 0)
		if pana != "" || ea != sipsp.ErrHdrOk || na != len(msgs[i].raw) {
			return fail(i, fmt.Sprintf("parsed alone: verdict %s offset %d (len %d)", errName(ea), na, len(msgs[i].raw)))
		}
		viewOf(&s.v1, A, len(msgs[i].raw), view.MsgOpt{}, false)
		s.v2.Reset(seen)
		s.v2.Shift = offs
		s.v2.Start = offs
		core.Guard(func() { U.View(&s.v2, view.MsgOpt{}) })
		if !view.Equal(&s.v1, &s.v2) {
			viewOf(&s.v1, A, len(msgs[i].raw), view.MsgOpt{}, true)
			s.v2.Reset(seen)
			s.v2.Lab = true
			s.v2.Shift = offs
			s.v2.Start = offs
			core.Guard(func() { U.View(&s.v2, view.MsgOpt{}) })
			return fail(i, "result differs from the same message parsed alone (after shifting by its offset): "+view.Diff(&s.v1, &s.v2))
		}
		total += n - offs
		offs = n
	}
	if total != len(stream)-tail {
		return fail(k, fmt.Sprintf("consumed %d bytes in total, the %d messages are %d bytes", total, k, len(stream)-tail))
	}
	return true
}

// RunC06 is the monitor for C06.
func RunC06(r *core.Run) {
	r.Rule = "case = (well-formed header block, declared Content-Length n in {absent, < = > available bytes, 0..70000}, available body bytes, all 8 flag sets, capacities): expected (verdict, offset, Body, RawMsg, Buf, Parsed()) by construction from the table of the statement: skip-body -> body start; CLen-required & skip-body & none -> ErrHdrNoCLen at the body start; present & enough -> exactly n bytes; present & short -> more-bytes, or truncated body iff no-more-data; absent & CLen-required -> empty body; absent & neither -> rest of buffer; pipelining: k in 1..6 messages back to back, parsed one after another from each returned offset with a Reset object (and with fresh objects), one-shot and with the stream delivered in random pieces: every message seen exactly once, in order, sum of consumed = stream length, each result == the message parsed alone shifted by its offset; non-trivial = every framing case / pipeline; distinct by hash"
	r.Assume = []string{"the Content-Length that counts is the first such header (long or compact name)"}
	n := r.Pick(800000, 50000000)
	r.Stage("framing-table", n, func(w *core.Worker, idx int64) {
		rr := core.NewRand(r.Seed, 0xC06, 1, uint64(idx))
		avail := rr.Intn(50)
		if rr.Intn(5) == 0 {
			avail = 0
		}
		declared := -1
		switch rr.Intn(6) {
		case 0:
		case 1, 2:
			declared = avail
		case 3:
			declared = rr.Intn(avail + 1)
		case 4:
			declared = avail + 1 + rr.Intn(30)
		case 5:
			declared = []int{0, 1, 65535, 70000, 1 << 24, avail + 1}[rr.Intn(6)]
		}
		raw, H := framedMsg(rr, declared, avail)
		ok := true
		for flags := uint8(0); flags < 8 && ok; flags++ {
			cfg := Cfg{HdrCap: []int{-1, 0, 1, 20}[rr.Intn(4)], ContactCap: []int{-1, 0, 2}[rr.Intn(3)], MsgFlags: flags}
			ok = checkFraming(w, raw, H, declared, flags, cfg)
			if ok && flags&sipsp.SIPMsgNoMoreDataF != 0 {
				late := len(raw)
				if rr.Bool() {
					late = rr.Intn(len(raw) + 1)
				}
				ok = checkFramingLate(w, raw, H, declared, flags, cfg, late)
			}
		}
		w.Inc(fmt.Sprintf("clen/%s", map[bool]string{true: "absent", false: map[bool]string{true: "fits", false: "short"}[declared <= avail]}[declared < 0]))
		w.Nontrivial(core.HashBytes(raw))
		if w.WantSample("framing-table") {
			w.Sample("framing-table", map[string]any{"msg": core.Esc(raw), "headers_end": H, "declared": declared, "available": avail})
		}
	})
	// large bodies up to the addressing limit
	r.Stage("framing-large", r.Pick(300, 25000), func(w *core.Worker, idx int64) {
		rr := core.NewRand(r.Seed, 0xC06, 2, uint64(idx))
		target := []int{65535, 65535, 60000, 40000, 65534}[rr.Intn(5)]
		base := target - 700
		declared := []int{base, base - 1, base + 1, 70000, base / 2, 65535, target - 300}[rr.Intn(7)]
		raw2, H2 := framedMsg(rr, declared, 66000)
		raw2 = raw2[:target] // the buffer ends exactly at the chosen total length
		for flags := uint8(0); flags < 8; flags++ {
			if !checkFraming(w, raw2, H2, declared, flags, Cfg{HdrCap: -1, ContactCap: -1, MsgFlags: flags}) {
				break
			}
		}
		w.Nontrivial(core.HashBytes(raw2[:H2]) ^ uint64(declared))
	})
	r.Stage("pipelining", r.Pick(400000, 30000000), func(w *core.Worker, idx int64) {
		rr := core.NewRand(r.Seed, 0xC06, 3, uint64(idx))
		k := rr.Range(1, 6)
		if checkPipeline(w, rr, k, idx%2 == 0, idx%4 >= 2) {
			w.Inc("pipelines_ok")
			w.Add("pipelined_messages", int64(k))
		}
		w.Nontrivial(uint64(idx) ^ r.Seed<<20)
	})
	r.Require("C06 pipelines", r.Counter("pipelines_ok"), 10000)
}
