package mon

import (
	"fmt"
	"strings"

	"github.com/intuitivelabs/sipsp"

	"verif/harness/core"
	"verif/harness/gen"
	"verif/harness/ref"
)

// refURIParamType is the independent classification of URI parameter names.
func refURIParamType(name string) sipsp.URIParamF {
	switch strings.ToLower(name) {
	case "transport":
		return sipsp.URIParamTransportF
	case "user":
		return sipsp.URIParamUserF
	case "method":
		return sipsp.URIParamMethodF
	case "ttl":
		return sipsp.URIParamTTLF
	case "maddr":
		return sipsp.URIParamMaddrF
	case "lr":
		return sipsp.URIParamLRF
	}
	return sipsp.URIParamOtherF
}

// cmpItem compares one parsed parameter with the generated item.
func cmpItem(p *sipsp.PTokParam, it *gen.PLItem, buf []byte) string {
	g := func(f sipsp.PField) string {
		if int(f.Offs)+int(f.Len) > len(buf) {
			return fmt.Sprintf("%v(out of range)", f)
		}
		return fmt.Sprintf("%q@%v", f.Get(buf), f)
	}
	if !pfIs(p.Name, it.NameSp) {
		return fmt.Sprintf("Name = %s, written name %q at [%d,%d)", g(p.Name), it.Name, it.NameSp.S, it.NameSp.E)
	}
	if it.HasEq && it.Val != "" {
		if !pfIs(p.Val, it.ValSp) {
			return fmt.Sprintf("Val = %s, written value %q at [%d,%d)", g(p.Val), it.Val, it.ValSp.S, it.ValSp.E)
		}
	} else if p.Val.Len != 0 {
		return fmt.Sprintf("Val = %s but the value is missing / empty", g(p.Val))
	}
	aend := int(p.All.Offs) + int(p.All.Len)
	if int(p.All.Offs) > it.NameSp.S || aend < it.NameSp.E || (it.HasEq && it.Val != "" && aend < it.ValSp.E) {
		return fmt.Sprintf("All = %s does not contain name and value", g(p.All))
	}
	return ""
}

func termName(t int) string {
	return []string{"end-of-header", "terminator-char", "space-then-token", "end-of-input"}[t]
}

// checkFinal compares verdict and offset with what the terminator demands.
func checkFinal(pl *gen.PList, n int, e sipsp.ErrorHdr) string {
	switch pl.Term {
	case gen.TermEOH:
		if e != sipsp.ErrHdrEOH || n != pl.TermOffs {
			return fmt.Sprintf("list ended by end of header: expected ErrHdrEOH at %d (first byte after the line end), got %s at %d", pl.TermOffs, errName(e), n)
		}
	case gen.TermChar:
		if e != sipsp.ErrHdrOk || n != pl.TermOffs {
			return fmt.Sprintf("list ended by '%c': expected OK with the offset on the terminator (%d), got %s at %d", pl.TermByte, pl.TermOffs, errName(e), n)
		}
	case gen.TermSpTok:
		if e != sipsp.ErrHdrOk || n < pl.WsS || n >= pl.WsE {
			return fmt.Sprintf("list ended by whitespace-then-token: expected OK with the offset inside the whitespace run [%d,%d), got %s at %d", pl.WsS, pl.WsE, errName(e), n)
		}
	case gen.TermInput:
		if e != sipsp.ErrHdrEOH || n != len(pl.Raw) {
			return fmt.Sprintf("list ended by end of input: expected ErrHdrEOH at %d, got %s at %d", len(pl.Raw), errName(e), n)
		}
	}
	return ""
}

func plDetail(pl *gen.PList, cuts []int) map[string]any {
	var items []string
	for _, it := range pl.Items {
		s := it.Name
		if it.HasEq {
			s += "=" + it.Val
		}
		items = append(items, s)
	}
	return map[string]any{"flags": uint(pl.Flags), "separator": string(pl.Sep), "terminator": termName(pl.Term), "items": items, "cuts": cuts, "trailing_separator": pl.TrailSep}
}

// RunC17 is the monitor for C17.
func RunC17(r *core.Run) {
	r.Rule = "case = one grammar-generated parameter list (0..6 items name[=value], values token / quoted with escapes / empty / missing, SP/HT/folds around names '=' and separators, empty items, separator ';' or '&', terminator in {end of header, ',' / '?', whitespace-then-token, end of input} as the flag set allows) for each of the 15 documented flag sets (+ random flag sets); ParseTokenParam driven value by value, ParseAllURIParams / ParseAllURIHdrs for capacities 0..n+1; expected by construction: one parameter per item in order, Name/Val exactly the written text (quoted values complete), All containing both, final verdict and offset per terminator, wrappers' N / per-parameter type (independent table, case-insensitive) / Types; character stage: every byte value 0..255 at name-start, name-middle, value-start and value-middle in 6 modes must be accepted iff it is in the documented set (letters digits -_.!~*'()% []/:+$, '&' in URI-parameter mode, '?' otherwise) and otherwise be rejected (an error verdict) instead of being absorbed into a name or value; GetViaBrSig: branch found iff present, prefix rule; non-trivial = list accepted and compared; distinct by hash"
	r.Assume = []string{"whitespace-then-token: any offset inside the separating whitespace run is accepted; an empty value directly before SP+token is ambiguous (a= b is a=b) and not generated; a zero-item list before a ','/'?' terminator has no stated verdict and is not generated",
		"for an empty value only Val.Len == 0 is demanded (its offset is unspecified)"}
	n := r.Pick(1500000, 150000000)
	r.Stage("token-param-lists", n, func(w *core.Worker, idx int64) {
		rr := core.NewRand(r.Seed, 0xC17, 1, uint64(idx))
		flags := TokFlagSets[idx%int64(len(TokFlagSets))]
		if rr.Intn(10) == 0 {
			flags = sipsp.POptFlags(rr.Intn(256))
		}
		o := gen.PLOptsFor(flags, rr)
		o.Plain = rr.Intn(6) == 0
		pl := gen.ParamList(rr, o)
		buf := pl.Raw
		cuts := []int{len(buf)}
		if rr.Intn(3) == 0 && flags&sipsp.POptInputEndF == 0 {
			cuts = CutsRandom(nil, rr, 0, len(buf), rr.Range(1, 5))
		}
		late := false
		if flags&sipsp.POptInputEndF != 0 && rr.Bool() {
			// the end-of-input flag only on the last call, which may or may not bring new bytes
			cuts = CutsRandom(nil, rr, 0, len(buf), rr.Range(1, 4))
			if rr.Bool() {
				cuts = append(cuts, len(buf))
			}
			late = true
			w.Inc("late_end_flag_runs")
		}
		t := &tokObj{flags: flags}
		nn, e, _, pan := driveLate(t, buf, 0, cuts, late)
		w.Eval(1)
		fail := func(cls, what string) {
			w.Fail(cls, func() *core.Violation { return core.V("ParseTokenParam: "+what, buf, plDetail(pl, cuts)) })
		}
		if pan != "" {
			fail("panic", pan)
			return
		}
		if m := checkFinal(pl, nn, e); m != "" {
			fail("terminator/"+termName(pl.Term), m)
			return
		}
		got := len(t.done)
		if !t.cur.Empty() {
			got++
		}
		if got != len(pl.Items) {
			fail("item-count", fmt.Sprintf("%d parameters reported, %d items were written", got, len(pl.Items)))
			return
		}
		for i := range pl.Items {
			p := &t.cur
			if i < len(t.done) {
				p = &t.done[i]
			}
			if m := cmpItem(p, &pl.Items[i], buf); m != "" {
				fail("item", fmt.Sprintf("item %d of %d: %s", i, len(pl.Items), m))
				return
			}
		}
		w.Inc("lists_compared")
		w.Inc("term/" + termName(pl.Term))
		w.Nontrivial(core.HashBytes(buf) ^ uint64(flags)<<48)
		if w.WantSample("token-param-lists/" + termName(pl.Term)) {
			w.Sample("token-param-lists/"+termName(pl.Term), map[string]any{"input": core.Esc(buf), "flags": uint(flags)})
		}
	})
	r.Stage("uri-param-and-header-wrappers", r.Pick(1000000, 120000000), func(w *core.Worker, idx int64) {
		rr := core.NewRand(r.Seed, 0xC17, 2, uint64(idx))
		hdrs := idx%2 == 1
		base := []sipsp.POptFlags{sipsp.POptInputEndF, sipsp.POptTokURIParamF | sipsp.POptInputEndF, sipsp.POptTokQmTermF, sipsp.POptTokSpTermF, 0,
			sipsp.POptTokCommaTermF, sipsp.POptTokURIParamF, sipsp.POptTokCommaTermF | sipsp.POptInputEndF, sipsp.POptTokSpTermF | sipsp.POptInputEndF}[rr.Intn(9)]
		if hdrs {
			// (asking the header-list wrapper for URI-parameter mode is a contradictory flag
			// combination; what it then does is not stated)
			base &^= sipsp.POptTokURIParamF
		}
		eff := base | sipsp.POptParamSemiSepF
		if hdrs {
			eff = base | sipsp.POptParamAmpSepF | sipsp.POptTokURIHdrF
		}
		o := gen.PLOptsFor(eff, rr)
		pl := gen.ParamList(rr, o)
		buf := pl.Raw
		for pc := 0; pc <= len(pl.Items)+1; pc++ {
			cuts := []int{len(buf)}
			if rr.Intn(3) == 0 && eff&sipsp.POptInputEndF == 0 {
				cuts = CutsRandom(nil, rr, 0, len(buf), rr.Range(1, 4))
			}
			var ob Obj
			name := "ParseAllURIParams"
			if hdrs {
				name = "ParseAllURIHdrs"
				x := &uriHdrsObj{flags: base}
				x.l.Init(make([]sipsp.URIHdr, pc))
				ob = x
			} else {
				x := &uriParamsObj{flags: base}
				x.l.Init(make([]sipsp.URIParam, pc))
				ob = x
			}
			if pc > 0 && rr.Intn(3) == 0 {
				// the list object was used before: a prefix of another list, then Reset()
				ol := gen.ParamList(rr, gen.PLOptsFor(eff, rr)).Raw
				core.Guard(func() { ob.Call(ol[:rr.Intn(len(ol)+1)], 0); ob.Reset() })
				w.Inc("lists_on_reused_objects")
			}
			late := false
			if eff&sipsp.POptInputEndF != 0 && rr.Bool() {
				cuts = CutsRandom(nil, rr, 0, len(buf), rr.Range(1, 3))
				if rr.Bool() {
					cuts = append(cuts, len(buf))
				}
				late = true
				w.Inc("late_end_flag_runs")
			}
			nn, e, _, pan := driveLate(ob, buf, 0, cuts, late)
			w.Eval(1)
			fail := func(cls, what, fnd string) {
				w.FailF(cls+"/"+name, fnd, func() *core.Violation {
					d := plDetail(pl, cuts)
					d["capacity"] = pc
					d["flags_passed"] = uint(base)
					v := core.V(fmt.Sprintf("%s (capacity %d): %s", name, pc, what), buf, d)
					v.Finding = fnd
					return v
				})
			}
			if pan != "" {
				fail("panic", pan, "")
				return
			}
			if m := checkFinal(pl, nn, e); m != "" {
				fail("terminator/"+termName(pl.Term), m, "")
				return
			}
			var N, vno int
			var types sipsp.URIParamF
			var get func(i int) (*sipsp.PTokParam, sipsp.URIParamF)
			var more bool
			if hdrs {
				x := ob.(*uriHdrsObj)
				N, vno, more = x.l.N, x.vno, x.l.More()
				get = func(i int) (*sipsp.PTokParam, sipsp.URIParamF) { return (*sipsp.PTokParam)(&x.l.Hdrs[i]), 0 }
			} else {
				x := ob.(*uriParamsObj)
				N, vno, more, types = x.l.N, x.vno, x.l.More(), x.l.Types
				get = func(i int) (*sipsp.PTokParam, sipsp.URIParamF) { return &x.l.Params[i].Param, x.l.Params[i].T }
			}
			_ = vno // the per-call count is not part of the statement (see parsers.go)
			if N != len(pl.Items) {
				fnd := ""
				if len(pl.Items) == 0 && N == 1 && e == sipsp.ErrHdrEOH {
					if pc == 0 {
						fnd = "D14a"
					} else if p, _ := get(0); p.Name.Len == 0 {
						fnd = "D14a"
					}
				}
				fail("count", fmt.Sprintf("N=%d, %d items were written", N, len(pl.Items)), fnd)
				if fnd != "" {
					continue
				}
				return
			}
			if more != (N > pc) {
				fail("more", fmt.Sprintf("More()=%v with N=%d", more, N), "")
				return
			}
			var wantTypes sipsp.URIParamF
			for i := range pl.Items {
				wt := refURIParamType(pl.Items[i].Name)
				wantTypes |= wt
				if i >= pc {
					continue
				}
				p, t := get(i)
				if m := cmpItem(p, &pl.Items[i], buf); m != "" {
					fail("item", fmt.Sprintf("item %d of %d: %s", i, len(pl.Items), m), "")
					return
				}
				if !hdrs && t != wt {
					fail("param-type", fmt.Sprintf("parameter %q classified as %#x, the table says %#x", pl.Items[i].Name, t, wt), "")
					return
				}
			}
			if !hdrs && types != wantTypes {
				fail("types", fmt.Sprintf("Types=%#x, the written parameters give %#x", types, wantTypes), "")
				return
			}
		}
		w.Inc("lists_compared")
		w.Nontrivial(core.HashBytes(buf) ^ uint64(base)<<48 ^ uint64(idx%2))
		if w.WantSample("wrappers") {
			w.Sample("wrappers", map[string]any{"input": core.Esc(buf), "flags_passed": uint(base), "uri_headers": hdrs})
		}
	})
	// wrappers filled by several calls: k lists in one buffer (each ended by ','), one call per list
	r.Stage("wrappers-filled-by-several-calls", r.Pick(100000, 18000000), func(w *core.Worker, idx int64) {
		rr := core.NewRand(r.Seed, 0xC17, 5, uint64(idx))
		hdrs := rr.Bool()
		flags := sipsp.POptTokCommaTermF
		eff := flags | sipsp.POptParamSemiSepF
		if hdrs {
			eff = flags | sipsp.POptParamAmpSepF | sipsp.POptTokURIHdrF
		}
		k := rr.Range(2, 4)
		var buf []byte
		var starts []int
		var items []gen.PLItem
		var ends []int
		badAt := -1
		if rr.Intn(3) == 0 {
			badAt = rr.Intn(k - 1) // this call starts with a byte no mode accepts: an error, nothing is added
		}
		for i := 0; i < k; i++ {
			o := gen.PLOpts{Flags: eff, Term: gen.TermChar, MaxItems: 4}
			if i == k-1 {
				o.Term = gen.TermEOH
			}
			if i == badAt {
				starts = append(starts, len(buf))
				buf = append(buf, []string{"\x01bad=1,", "\x7f,", "\x00x;y,"}[rr.Intn(3)]...)
				ends = append(ends, -1)
				continue
			}
			pl := gen.ParamList(rr, o)
			base := len(buf)
			starts = append(starts, base)
			raw := pl.Raw
			if o.Term == gen.TermChar {
				raw = pl.Raw[:pl.TermOffs+1]
			}
			buf = append(buf, raw...)
			for _, it := range pl.Items {
				it.NameSp.S += base
				it.NameSp.E += base
				it.ValSp.S += base
				it.ValSp.E += base
				items = append(items, it)
			}
			ends = append(ends, base+pl.TermOffs)
		}
		pc := rr.Intn(len(items) + 2)
		var ob Obj
		var N func() (int, sipsp.URIParamF)
		var get func(i int) (*sipsp.PTokParam, sipsp.URIParamF)
		if hdrs {
			x := &uriHdrsObj{flags: flags}
			x.l.Init(make([]sipsp.URIHdr, pc))
			ob = x
			N = func() (int, sipsp.URIParamF) { return x.l.N, 0 }
			get = func(i int) (*sipsp.PTokParam, sipsp.URIParamF) { return (*sipsp.PTokParam)(&x.l.Hdrs[i]), 0 }
		} else {
			x := &uriParamsObj{flags: flags}
			x.l.Init(make([]sipsp.URIParam, pc))
			ob = x
			N = func() (int, sipsp.URIParamF) { return x.l.N, x.l.Types }
			get = func(i int) (*sipsp.PTokParam, sipsp.URIParamF) { return &x.l.Params[i].Param, x.l.Params[i].T }
		}
		fail := func(what string) {
			bc := append([]byte(nil), buf...)
			w.Fail("several-calls", func() *core.Violation {
				return core.V(fmt.Sprintf("%d lists parsed by %d consecutive calls into one list (capacity %d, uri headers: %v): %s", k, k, pc, hdrs, what), bc, map[string]any{"call_offsets": starts})
			})
		}
		for i := 0; i < k; i++ {
			n, e, pan, _ := safeCall(ob, buf, starts[i])
			w.Eval(1)
			if pan != "" {
				fail("panic " + pan)
				return
			}
			if ends[i] < 0 {
				// the malformed call: an error verdict; the caller skips it and goes on
				if !IsErrVerdict(e) {
					fail(fmt.Sprintf("call %d starts with a byte outside every character set but returned (%d, %s)", i, n, errName(e)))
					return
				}
				w.Inc("error_calls_in_between")
				continue
			}
			wantE, wantN := sipsp.ErrHdrOk, ends[i]
			if i == k-1 {
				wantE = sipsp.ErrHdrEOH
			}
			if e != wantE || n != wantN {
				fail(fmt.Sprintf("call %d returned (%d, %s), expected (%d, %s)", i, n, errName(e), wantN, errName(wantE)))
				return
			}
		}
		gotN, gotT := N()
		var wantT sipsp.URIParamF
		for i := range items {
			wantT |= refURIParamType(items[i].Name)
		}
		if gotN != len(items) || (!hdrs && gotT != wantT) {
			fail(fmt.Sprintf("N=%d Types=%#x, the lists hold %d items with types %#x", gotN, gotT, len(items), wantT))
			return
		}
		for i := 0; i < len(items) && i < pc; i++ {
			p, t := get(i)
			if m := cmpItem(p, &items[i], buf); m != "" {
				fail(fmt.Sprintf("item %d: %s", i, m))
				return
			}
			if !hdrs && t != refURIParamType(items[i].Name) {
				fail(fmt.Sprintf("item %d (%q) classified %#x", i, items[i].Name, t))
				return
			}
		}
		w.Inc("lists_compared")
		w.Nontrivial(core.HashBytes(buf) ^ uint64(pc)<<50)
	})
	// character classes
	modes := []sipsp.POptFlags{0, sipsp.POptTokURIParamF, sipsp.POptTokURIHdrF, sipsp.POptTokCommaTermF, sipsp.POptParamAmpSepF | sipsp.POptTokQmTermF, sipsp.POptTokSpTermF}
	st := r.Stage("character-classes", int64(256*4*len(modes)), func(w *core.Worker, idx int64) {
		c := byte(idx % 256)
		pos := int(idx / 256 % 4)
		flags := modes[idx/1024]
		sep, term := gen.SepTerm(flags)
		if c == sep || (term != 0 && c == term) || c == '=' || c == ' ' || c == '\t' || c == '\r' || c == '\n' {
			return // structural at this position: not a name/value character question
		}
		if c == '"' && pos == 2 {
			return // opens a quoted value
		}
		var in []byte
		var at int
		switch pos {
		case 0: // name start
			in = append([]byte{c}, "cd=ef"...)
			at = 0
		case 1: // name middle
			in = append(append([]byte("ab"), c), "cd=ef"...)
			at = 2
		case 2: // value start
			in = append(append([]byte("ab="), c), "ef"...)
			at = 3
		default: // value middle
			in = append(append([]byte("ab=c"), c), "ef"...)
			at = 4
		}
		in = append(in, string(sep)+"g=h\r\nX"...)
		allowed := (c >= '0' && c <= '9') || (c >= 'a' && c <= 'z') || (c >= 'A' && c <= 'Z') || strings.IndexByte("-_.!~*'()%[]/:+$", c) >= 0
		if flags&sipsp.POptTokURIParamF != 0 {
			allowed = allowed || c == '&'
		} else {
			allowed = allowed || c == '?'
		}
		t := &tokObj{flags: flags}
		nn, e, pan, _ := safeCall(t, in, 0)
		w.Eval(1)
		if pan != "" {
			return
		}
		if allowed {
			if e != sipsp.ErrHdrEOH || len(t.done) != 1 {
				w.Fail("allowed-char-rejected", func() *core.Violation {
					return core.V(fmt.Sprintf("byte %q is in the documented set for flags %#x but %q gives %s at %d", c, uint(flags), in, errName(e), nn), in, map[string]any{"flags": uint(flags), "position": pos})
				})
			}
			w.Inc("allowed_bytes_seen")
		} else {
			if !IsErrVerdict(e) {
				w.Fail("bad-char-absorbed", func() *core.Violation {
					return core.V(fmt.Sprintf("byte %q (offset %d) is outside the documented set for flags %#x but %q gives %s at %d (expected an error verdict: rejected, not absorbed)", c, at, uint(flags), in, errName(e), nn), in, map[string]any{"flags": uint(flags), "position": pos})
				})
			}
			w.Inc("rejected_bytes_seen")
		}
		w.NontrivialEnum()
	})
	st.Exhaustive = true
	st.Space = "every byte value 0..255 x {name start, name middle, value start, value middle} x 6 flag sets (structural bytes of the mode excluded)"
	// Via branch signature
	r.Stage("via-branch", r.Pick(500000, 48000000), func(w *core.Worker, idx int64) {
		rr := core.NewRand(r.Seed, 0xC17, 4, uint64(idx))
		var via []byte
		via = append(via, []string{"SIP/2.0/UDP host", "SIP/2.0/TCP 10.0.0.1:5060", "SIP/2.0/TLS [2001:db8::1]:5061", "x"}[rr.Intn(4)]...)
		np := rr.Intn(5)
		brAt := -1
		if rr.Intn(5) > 0 {
			brAt = rr.Intn(np + 1)
		}
		var brVal string
		for i := 0; i <= np; i++ {
			if i == brAt {
				brVal = string(rr.Bytes(rr.Range(1, 24), []byte("abcdefABCDEF0123456789-._*+")))
				if rr.Intn(3) > 0 {
					brVal = gen.RandCase(rr, "z9hG4bK") + brVal
				}
				if rr.Intn(8) == 0 {
					// a branch parameter without a value: found, but nothing to classify
					brVal = ""
					via = append(via, (";" + gen.RandCase(rr, "branch") + []string{"", "="}[rr.Intn(2)])...)
				} else {
					via = append(via, (";" + []string{"", " "}[rr.Intn(2)] + gen.RandCase(rr, "branch") + []string{"=", " = "}[rr.Intn(2)] + brVal)...)
				}
			} else if i < np {
				via = append(via, (";" + []string{"rport", "received=1.2.3.4", "ttl=5", "x=\"q;branch=no\"", "maddr=h", "branchx=1", "bran=2", "y=\"a\\\"b,c\"", "z=\"\\\\\"", "q=\"a, b\""}[rr.Intn(10)])...)
			}
		}
		if rr.Intn(4) == 0 && (np > 0 || brAt >= 0) {
			// a second Via value; only when the first one has a parameter (GetViaBrSig
			// looks for the first ';' of the text it is given)
			via = append(via, ", SIP/2.0/UDP second;branch=z9hG4bKother"...)
		}
		var sig sipsp.StrSigId
		var sl int
		pan, _, _ := core.Guard(func() { sig, sl = sipsp.GetViaBrSig(via) })
		w.Eval(1)
		if pan {
			return
		}
		if brAt < 0 {
			if sig != 0 || sl != 0 {
				w.Fail("via-branch-phantom", func() *core.Violation {
					return core.V(fmt.Sprintf("GetViaBrSig(%q) = (%#x,%d) but the first Via value has no branch parameter", via, sig, sl), via, nil)
				})
			}
		} else {
			wl := len(brVal)
			if len(brVal) > 7 && ref.Lower([]byte(brVal[:7])) == "z9hg4bk" {
				wl -= 7
			}
			var s2 sipsp.StrSigId
			var l2 int
			core.Guard(func() { s2, l2 = sipsp.GetViaBrSig([]byte("y;branch=" + brVal)) })
			if brVal == "" && (sig != 0 || sl != 0) {
				w.Fail("via-branch-empty", func() *core.Violation {
					return core.V(fmt.Sprintf("GetViaBrSig(%q) = (%#x,%d) but the branch parameter has no value", via, sig, sl), via, nil)
				})
			}
			_ = wl // (how the "z9hG4bK" cookie is treated - stripped, in which letter case - is the
			// business of the fingerprint, not of parameter parsing: only the relation is judged)
			if sl != l2 || sig != s2 {
				w.Fail("via-branch", func() *core.Violation {
					return core.V(fmt.Sprintf("GetViaBrSig(%q) = (%#x,%d); the branch value is %q: expected the same result as for the bare value, (%#x,%d)", via, sig, sl, brVal, s2, l2), via, nil)
				})
			}
			w.Inc("branches_found")
		}
		w.Nontrivial(core.HashBytes(via))
	})
	r.Require("C17 lists compared", r.Counter("lists_compared"), 50000)
	r.Require("C17 bytes rejected", r.Counter("rejected_bytes_seen"), 1000)
}
