package mon

import (
	"fmt"
	"runtime/debug"

	"github.com/intuitivelabs/sipsp"

	"verif/harness/core"
	"verif/harness/view"
)

// Case is one (parser, configuration, input, start offset) tuple.
type Case struct {
	P     *ParserDef
	Cfg   Cfg
	Buf   []byte
	Start int
}

func (c *Case) detail() map[string]any {
	return map[string]any{"parser": c.P.Name, "start": c.Start, "len": len(c.Buf),
		"hdr_cap": c.Cfg.HdrCap, "contact_cap": c.Cfg.ContactCap, "param_cap": c.Cfg.ParamCap,
		"msg_flags": c.Cfg.MsgFlags, "tok_flags": uint(c.Cfg.Flags)}
}

// scratch is the per-worker reusable memory.
type scratch struct {
	v1, v2, v3 view.Vec
	buf        []byte
	cuts       []int
	iso        [2][]byte
	ex         [exactTable][]byte
}

// ---- private copies of the bytes handed to a call ----
//
// A caller that receives a stream grows its buffer with append(), so consecutive calls on one
// object see the old data + new data on DIFFERENT backing arrays, and whatever lies in the
// slack between len and cap is none of the parser's business. The drivers therefore never hand
// the library a sub-slice of the case's full buffer (where the "slack" would be the true
// continuation and a stale reference to an older buffer would still read the right bytes):
//   - isoPrefix: a copy on one of two alternating arenas, with hostile slack after len
//     (bytes that continue numbers, addresses, quoted strings and line ends differently from
//     any real continuation). Peeking past len or holding on to the previous call's buffer
//     changes what the object reports.
//   - exactPrefix: a copy whose capacity equals its length, so that re-slicing past len panics.
const exactTable = 1024

var isoPoison = []byte("9.9.9.9\";=,<>\\:@ \t\r\n\r\n123456789")

func (s *scratch) isoPrefix(pre []byte, k int) []byte {
	a := &s.iso[k&1]
	need := len(pre) + len(isoPoison)
	if cap(*a) < need {
		*a = make([]byte, need*2)
	}
	b := (*a)[:need]
	copy(b, pre)
	copy(b[len(pre):], isoPoison)
	return b[:len(pre)]
}

func (s *scratch) exactPrefix(pre []byte) []byte {
	n := len(pre)
	if n >= exactTable {
		b := make([]byte, n)
		copy(b, pre)
		return b
	}
	if s.ex[n] == nil {
		s.ex[n] = make([]byte, n)
	}
	copy(s.ex[n], pre)
	return s.ex[n]
}

// isoCopy / exactCopy: allocating variants for drivers without a worker scratch.
func isoCopy(pre []byte) []byte {
	b := make([]byte, len(pre)+len(isoPoison))
	copy(b, pre)
	copy(b[len(pre):], isoPoison)
	return b[:len(pre)]
}

func exactCopy(pre []byte) []byte {
	b := make([]byte, len(pre))
	copy(b, pre)
	return b
}

func sc(w *core.Worker) *scratch {
	if w.Scratch == nil {
		w.Scratch = &scratch{}
	}
	return w.Scratch.(*scratch)
}

// safeCall calls o.Call and converts a panic into pan != "".
func safeCall(o Obj, buf []byte, offs int) (n int, e sipsp.ErrorHdr, pan string, stack string) {
	defer func() {
		if r := recover(); r != nil {
			pan = fmt.Sprint(r)
			if pan == "" {
				pan = "panic"
			}
			stack = string(debug.Stack())
		}
	}()
	n, e = o.Call(buf, offs)
	return
}

// viewOf computes the view of o against buf into v.
func viewOf(v *view.Vec, o Obj, bufLen int, op view.MsgOpt, lab bool) (pan string) {
	defer func() {
		if r := recover(); r != nil {
			pan = fmt.Sprint(r)
		}
	}()
	v.Reset(bufLen)
	v.Lab = lab
	o.View(v, op)
	return
}

func errName(e sipsp.ErrorHdr) string {
	if int(e) <= int(sipsp.ErrHdrTooManyVals) {
		return fmt.Sprintf("%d(%s)", uint32(e), e.Error())
	}
	return fmt.Sprintf("%d", uint32(e))
}

// Safety is the C04 net applied to one call result: offset range, offset
// monotonicity unless error, dereferenceability of every reported field.
// It returns "" or a description.
func Safety(o Obj, buf []byte, offsIn, n int, e sipsp.ErrorHdr, v *view.Vec) string {
	if n < 0 || n > len(buf) {
		return fmt.Sprintf("returned offset %d outside the buffer [0,%d] (verdict %s)", n, len(buf), errName(e))
	}
	if n < offsIn && !IsErrVerdict(e) {
		return fmt.Sprintf("returned offset %d before the start offset %d with non-error verdict %s", n, offsIn, errName(e))
	}
	if pan := viewOf(v, o, len(buf), view.MsgOpt{Opt: view.Opt{Deep: true}}, true); pan != "" {
		return "reading back the result panicked: " + pan
	}
	if v.OOB != "" {
		return "reported field cannot be dereferenced: " + v.OOB
	}
	return ""
}

// ResumeResult summarises one resumed run.
type ResumeResult struct {
	Suspended int            // number of more-bytes verdicts before the definitive one
	Final     sipsp.ErrorHdr // last verdict
	Definite  bool
	Bad       bool
}

// CheckResume drives c.Buf through parser c.P on ONE object along the cut
// schedule and compares every step with a fresh one-shot parse of the same
// prefix (C01 / C02 oracle).
func CheckResume(w *core.Worker, c *Case, cuts []int, op view.MsgOpt) (res ResumeResult) {
	s := sc(w)
	R := c.P.New(c.Cfg)
	o := c.Start
	for ci, cut := range cuts {
		if cut < c.Start {
			continue
		}
		// the resumed object sees every prefix on another backing array with hostile slack, the
		// fresh one an exact-capacity copy
		n, e, pan, stk := safeCall(R, s.isoPrefix(c.Buf[:cut], ci), o)
		F := c.P.New(c.Cfg)
		nf, ef, panf, _ := safeCall(F, s.exactPrefix(c.Buf[:cut]), c.Start)
		w.Eval(1)
		if pan != "" || panf != "" {
			if pan != "" && panf != "" {
				w.Inc("both_panicked(left to C04)")
				res.Bad = true
				return
			}
			res.Bad = true
			cutsCopy := append([]int(nil), cuts[:ci+1]...)
			w.Fail("panic-one-side/"+c.P.Name, func() *core.Violation {
				d := c.detail()
				d["cuts"] = cutsCopy
				d["resumed_panic"] = pan
				d["fresh_panic"] = panf
				v := core.V(fmt.Sprintf("%s: resumed call panicked=%q but fresh call panicked=%q on the same prefix (len %d)",
					c.P.Name, pan, panf, cut), c.Buf, d)
				v.Stack = stk
				return v
			})
			return
		}
		if n != nf || e != ef {
			res.Bad = true
			cutsCopy := append([]int(nil), cuts[:ci+1]...)
			fnd := ""
			if c.P.Name == "ParseTokenParam" || c.P.Name == "ParseAllURIParams" || c.P.Name == "ParseAllURIHdrs" {
				fnd = matchD15(c, cut, n, nf, e, ef)
			}
			w.Fail("verdict/"+c.P.Name, func() *core.Violation {
				d := c.detail()
				d["cuts"] = cutsCopy
				v := core.V(fmt.Sprintf("%s: resumed call on prefix len %d returned (offs=%d, %s) but a fresh parser returns (offs=%d, %s)",
					c.P.Name, cut, n, errName(e), nf, errName(ef)), c.Buf, d)
				v.Finding = fnd
				return v
			})
			return
		}
		if e != sipsp.ErrHdrMoreBytes {
			res.Definite = true
			res.Final = e
			p1 := viewOf(&s.v1, R, cut, op, false)
			p2 := viewOf(&s.v2, F, cut, op, false)
			if p1 != "" || p2 != "" || !view.Equal(&s.v1, &s.v2) {
				res.Bad = true
				cutsCopy := append([]int(nil), cuts[:ci+1]...)
				w.Fail("view/"+c.P.Name, func() *core.Violation {
					viewOf(&s.v1, R, cut, op, true)
					viewOf(&s.v2, F, cut, op, true)
					d := c.detail()
					d["cuts"] = cutsCopy
					return core.V(fmt.Sprintf("%s: after the definitive verdict %s the resumed object differs from the one-shot result: %s %s%s",
						c.P.Name, errName(e), view.Diff(&s.v1, &s.v2), p1, p2), c.Buf, d)
				})
			}
			return
		}
		res.Suspended++
		if view.HooksOn {
			w.State(c.P.Name, R.State())
		}
		o = n
	}
	return
}

// lateFlagger is implemented by the objects whose parser has an end-of-input flag.
type lateFlagger interface{ setEndInput(on bool) }

// CheckLateEnd: a receiver learns only at the end that no more input will come, so the
// end-of-input flag (POptInputEndF / SIPMsgNoMoreDataF) is absent on every call but the last.
// For a configuration that has the flag, the object is driven along cuts with the flag OFF; if
// it is still suspended when the last cut (the whole buffer) is reached, that last call carries
// the flag and must give what a fresh object gives for one call with the flag on the whole
// buffer (verdict, offset, view).
func CheckLateEnd(w *core.Worker, c *Case, cuts []int, op view.MsgOpt) (ran bool) {
	if !c.P.EndInput(c.Cfg) || len(cuts) < 2 {
		return
	}
	s := sc(w)
	R := c.P.New(c.Cfg)
	lf, ok := R.(lateFlagger)
	if !ok {
		return
	}
	lf.setEndInput(false)
	o := c.Start
	var n int
	var e sipsp.ErrorHdr
	var pan, stk string
	for ci, cut := range cuts {
		if cut < c.Start {
			continue
		}
		last := ci == len(cuts)-1
		if last {
			lf.setEndInput(true)
		}
		n, e, pan, stk = safeCall(R, s.isoPrefix(c.Buf[:cut], ci), o)
		w.Eval(1)
		if pan != "" {
			break
		}
		if last {
			break
		}
		if e != sipsp.ErrHdrMoreBytes {
			return // definitive before the end: the ordinary schedules judge this
		}
		o = n
	}
	full := cuts[len(cuts)-1]
	F := c.P.New(c.Cfg)
	nf, ef, panf, _ := safeCall(F, s.exactPrefix(c.Buf[:full]), c.Start)
	ran = true
	w.Inc("late_end_flag_runs")
	bad := ""
	switch {
	case pan != "" || panf != "":
		if pan != panf {
			bad = fmt.Sprintf("resumed panic=%q fresh panic=%q", pan, panf)
		}
	case n != nf || e != ef:
		bad = fmt.Sprintf("the last call returned (offs=%d, %s) but one call with the flag on the whole buffer returns (offs=%d, %s)", n, errName(e), nf, errName(ef))
	case e != sipsp.ErrHdrMoreBytes:
		p1 := viewOf(&s.v1, R, full, op, false)
		p2 := viewOf(&s.v2, F, full, op, false)
		if p1 != "" || p2 != "" || !view.Equal(&s.v1, &s.v2) {
			viewOf(&s.v1, R, full, op, true)
			viewOf(&s.v2, F, full, op, true)
			bad = "the parsed values differ: " + view.Diff(&s.v1, &s.v2)
		}
	}
	if bad != "" {
		cutsCopy := append([]int(nil), cuts...)
		w.Fail("late-end-flag/"+c.P.Name, func() *core.Violation {
			d := c.detail()
			d["cuts"] = cutsCopy
			v := core.V(fmt.Sprintf("%s: end-of-input flag given only on the last of %d calls: %s", c.P.Name, len(cutsCopy), bad), c.Buf, d)
			v.Stack = stk
			return v
		})
	}
	return
}

// ---- cut schedules ----

// CutsEveryPrefix is schedule S1: start+0 .. len in one-byte steps.
func CutsEveryPrefix(dst []int, start, n int) []int {
	dst = dst[:0]
	for c := start; c <= n; c++ {
		dst = append(dst, c)
	}
	return dst
}

// CutsSingle is schedule S2: one cut at c, then the whole buffer.
func CutsSingle(dst []int, c, n int) []int {
	dst = append(dst[:0], c)
	if c != n {
		dst = append(dst, n)
	}
	return dst
}

func interesting(b byte) bool {
	switch b {
	case '\r', '\n', '\\', '"', ';', '=', ',', '<', '>', ':', ' ', '\t':
		return true
	}
	return false
}

// CutsInteresting is schedule S3: cuts before, at and after interesting bytes
// (thinned to at most max cuts).
func CutsInteresting(dst []int, r *core.Rand, buf []byte, start, max int) []int {
	dst = dst[:0]
	last := -1
	add := func(c int) {
		if c > start && c < len(buf) && c > last {
			dst = append(dst, c)
			last = c
		}
	}
	for i := start; i < len(buf); i++ {
		if interesting(buf[i]) || (i+1 < len(buf) && (buf[i] >= '0' && buf[i] <= '9') != (buf[i+1] >= '0' && buf[i+1] <= '9')) {
			add(i)
			add(i + 1)
			add(i + 2)
		}
	}
	if len(dst) > max {
		// keep a random subset, preserving order
		keep := dst[:0]
		need := max
		for i, c := range dst {
			if r.Intn(len(dst)-i) < need {
				keep = append(keep, c)
				need--
			}
		}
		dst = keep
	}
	return append(dst, len(buf))
}

// CutsRandom is schedule S4 (k random cuts) with optional S5 (repeated cut =
// empty growth).
func CutsRandom(dst []int, r *core.Rand, start, n, k int) []int {
	dst = dst[:0]
	if n > start {
		for i := 0; i < k; i++ {
			dst = append(dst, start+r.Intn(n-start+1))
		}
	}
	dst = append(dst, n)
	// insertion sort (k is small)
	for i := 1; i < len(dst); i++ {
		for j := i; j > 0 && dst[j] < dst[j-1]; j-- {
			dst[j], dst[j-1] = dst[j-1], dst[j]
		}
	}
	return dst
}

// ---- enumeration helper ----

// EnumSpace enumerates all strings over an alphabet with lengths 0..L.
type EnumSpace struct {
	Alpha []byte
	L     int
	cum   []int64 // cum[l] = number of strings shorter than l
}

// NewEnum builds the space.
func NewEnum(alpha string, L int) *EnumSpace {
	e := &EnumSpace{Alpha: []byte(alpha), L: L}
	var tot, p int64 = 0, 1
	for l := 0; l <= L; l++ {
		e.cum = append(e.cum, tot)
		tot += p
		p *= int64(len(alpha))
	}
	e.cum = append(e.cum, tot)
	return e
}

// Size is the number of strings.
func (e *EnumSpace) Size() int64 { return e.cum[len(e.cum)-1] }

// Str writes string number idx into dst.
func (e *EnumSpace) Str(dst []byte, idx int64) []byte {
	l := 0
	for l < e.L && idx >= e.cum[l+1] {
		l++
	}
	idx -= e.cum[l]
	dst = dst[:0]
	k := int64(len(e.Alpha))
	for i := 0; i < l; i++ {
		dst = append(dst, e.Alpha[idx%k])
		idx /= k
	}
	return dst
}

// Desc describes the space for the evidence.
func (e *EnumSpace) Desc() string {
	return fmt.Sprintf("all %d strings over %q of length 0..%d", e.Size(), string(e.Alpha), e.L)
}
