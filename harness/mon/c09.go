package mon

import (
	"fmt"

	"github.com/intuitivelabs/sipsp"

	"verif/harness/core"
	"verif/harness/gen"
	"verif/harness/ref"
)

func trimTrailEnd(buf []byte, f sipsp.PField) int {
	e := int(f.Offs) + int(f.Len)
	for e > int(f.Offs) && ref.IsLWSByte(buf[e-1]) {
		e--
	}
	return e
}

// cmpNA compares one parsed name-addr value with its generated decomposition.
// Returns "" or (what, finding).
func cmpNA(pf *sipsp.PFromBody, na *gen.NASpec, buf []byte, kind sipsp.HdrT) (string, string) {
	txt := func(s gen.Span) string { return fmt.Sprintf("%q@[%d,%d)", buf[s.S:s.E], s.S, s.E) }
	got := func(f sipsp.PField) string {
		if int(f.Offs)+int(f.Len) > len(buf) {
			return fmt.Sprintf("%v(out of range)", f)
		}
		return fmt.Sprintf("%q@%v", f.Get(buf), f)
	}
	if !pf.Parsed() {
		return "value not marked Parsed()", ""
	}
	if pf.Type != kind {
		fnd := ""
		if kind == sipsp.HdrTo && pf.Type == sipsp.HdrFrom {
			fnd = "D10"
		}
		return fmt.Sprintf("Type = %d (%s), parsed as %s", pf.Type, pf.Type, kind), fnd
	}
	if pf.Star != na.Star {
		return fmt.Sprintf("Star = %v, written star = %v", pf.Star, na.Star), ""
	}
	if !pfIs(pf.V, na.V) {
		// V itself is not one of the things the statement lists; it only has to be a trimmed
		// span inside the written value that covers everything that is reported inside it
		vs, ve := int(pf.V.Offs), int(pf.V.Offs)+int(pf.V.Len)
		core := na.URI
		if !na.Bare && !na.Star {
			core = gen.Span{S: na.URI.S - 1, E: na.URI.E + 1}
		}
		if na.HasName && na.Name.S < core.S {
			core.S = na.Name.S
		}
		if na.HasParams && na.ParamsSp.E > core.E {
			core.E = na.ParamsSp.E
		}
		if vs < na.V.S || ve > na.V.E || vs > core.S || ve < core.E || (pf.V.Len > 0 && (ref.IsLWSByte(buf[vs]) || ref.IsLWSByte(buf[ve-1]))) {
			return fmt.Sprintf("V = %s, the complete trimmed value is %s", got(pf.V), txt(na.V)), ""
		}
	}
	// (for the '*' form only the indicator is stated: the star is not a URI, so whether the URI
	// field points at it or stays empty is open)
	if !pfIs(pf.URI, na.URI) && !(na.Star && pf.URI.Len == 0) {
		return fmt.Sprintf("URI = %s, written URI is %s", got(pf.URI), txt(na.URI)), ""
	}
	if na.HasName {
		if int(pf.Name.Offs) != na.Name.S || trimTrailEnd(buf, pf.Name) != na.Name.E {
			return fmt.Sprintf("Name = %s, written display name is %s", got(pf.Name), txt(na.Name)), ""
		}
	} else if pf.Name.Len != 0 {
		return fmt.Sprintf("Name = %s but no display name was written", got(pf.Name)), ""
	}
	if na.HasParams {
		if int(pf.Params.Offs) != na.ParamsSp.S || trimTrailEnd(buf, pf.Params) != na.ParamsSp.E {
			return fmt.Sprintf("Params = %s, the parameter span is %s", got(pf.Params), txt(na.ParamsSp)), ""
		}
	} else if pf.Params.Len != 0 {
		return fmt.Sprintf("Params = %s but no parameter was written", got(pf.Params)), ""
	}
	if na.HasTag {
		if !pfIs(pf.Tag, na.Tag) {
			return fmt.Sprintf("Tag = %s, written tag is %s", got(pf.Tag), txt(na.Tag)), ""
		}
	} else if pf.Tag.Len != 0 {
		return fmt.Sprintf("Tag = %s but no tag parameter was written", got(pf.Tag)), ""
	}
	if pf.HasExpires != na.HasExpires || pf.Expires != na.Expires {
		return fmt.Sprintf("HasExpires=%v Expires=%d, written: present=%v value=%d", pf.HasExpires, pf.Expires, na.HasExpires, na.Expires), ""
	}
	if pf.Q != na.Q {
		return fmt.Sprintf("Q=%d, written q gives %d", pf.Q, na.Q), ""
	}
	if pf.LR != na.LR {
		fnd := ""
		if na.LR && !pf.LR {
			for _, p := range na.Params {
				if ref.Lower([]byte(p.Name)) == "lr" && !p.HasVal {
					fnd = "D11"
				}
			}
		}
		return fmt.Sprintf("LR=%v, written lr parameter present=%v", pf.LR, na.LR), fnd
	}
	return "", ""
}

func expSummary(nas []gen.NASpec) (min, max uint32) {
	min = ^uint32(0)
	for i := range nas {
		e := nas[i].Expires
		if e > max {
			max = e
		}
		if e < min {
			min = e
		}
	}
	return
}

// lwsBeforeComma tells whether some value (not the last) is followed by LWS
// before its comma while ending in a parameter (the D12 shape).
func lwsBeforeComma(buf []byte, nas []gen.NASpec) bool {
	for i := 0; i+1 < len(nas); i++ {
		if nas[i].HasParams && nas[i].V.E < len(buf) && ref.IsLWSByte(buf[nas[i].V.E]) {
			return true
		}
	}
	return false
}

// RunC09 is the monitor for C09.
func RunC09(r *core.Run) {
	r.Rule = "case = one grammar-generated name-addr value or comma separated list (quoted / token / absent display name, <uri> or bare uri, 0..6 parameters incl. tag/expires/q/lr in any case with token or quoted values, SP/HT/folds around ';' '=' ',' and between name and '<', empty list items, '*'), parsed stand-alone as From / To / Route / Record-Route / Contact / PAI value, through ParseAllContactValues / ParseAllPAIValues for every capacity, and inside whole messages (From, To, m Contact headers, m PAI headers); expected by construction: V, URI (exact), Name and Params (up to trailing whitespace, as the source documents), Tag, HasExpires/Expires (saturating), Q, LR, Star, Type; lists: N, HNo, Min/MaxExpires over ALL values, LastHVal, PHdrVals.MaxExpires(); non-trivial = accepted and compared; distinct by hash"
	r.Assume = []string{"a value without an expires parameter counts as 0 in Min/MaxExpires (what the summary documents by construction of the code)", "tag values are tokens; q values are 0|1 with at most 3 decimals; expires values are digit strings"}
	kinds := []struct {
		name string
		kind sipsp.HdrT
		fn   func(buf []byte, offs int, p *sipsp.PFromBody) (int, sipsp.ErrorHdr)
		list bool
		star bool
	}{
		{"ParseFromVal", sipsp.HdrFrom, sipsp.ParseFromVal, false, false},
		{"ParseNameAddrPVal(To)", sipsp.HdrTo, func(b []byte, o int, p *sipsp.PFromBody) (int, sipsp.ErrorHdr) {
			return sipsp.ParseNameAddrPVal(sipsp.HdrTo, b, o, p)
		}, false, false},
		{"ParseNameAddrPVal(Route)", sipsp.HdrRoute, func(b []byte, o int, p *sipsp.PFromBody) (int, sipsp.ErrorHdr) {
			return sipsp.ParseNameAddrPVal(sipsp.HdrRoute, b, o, p)
		}, true, false},
		{"ParseNameAddrPVal(Record-Route)", sipsp.HdrRecordRoute, func(b []byte, o int, p *sipsp.PFromBody) (int, sipsp.ErrorHdr) {
			return sipsp.ParseNameAddrPVal(sipsp.HdrRecordRoute, b, o, p)
		}, true, false},
		{"ParseOneContact", sipsp.HdrContact, sipsp.ParseOneContact, true, true},
		{"ParseOnePAI", sipsp.HdrPAI, sipsp.ParseOnePAI, true, false},
	}
	n := r.Pick(1000000, 90000000)
	r.Stage("stand-alone-values", n, func(w *core.Worker, idx int64) {
		rr := core.NewRand(r.Seed, 0xC09, 1, uint64(idx))
		k := kinds[rr.Intn(len(kinds))]
		nv := 1
		if k.list && rr.Intn(2) == 0 {
			nv = rr.Range(2, 5)
		}
		buf, nas := gen.NameAddrValue(rr, nv, k.star, rr.Intn(8) == 0)
		o := &nameAddrObj{fn: k.fn}
		cuts := []int{len(buf)}
		if rr.Intn(3) == 0 {
			cuts = CutsRandom(nil, rr, 0, len(buf), rr.Range(1, 5))
		}
		nn, e, _, pan := drive(o, buf, 0, cuts)
		w.Eval(1)
		fail := func(cls, what, fnd string) {
			w.Fail(cls+"/"+k.name, func() *core.Violation {
				v := core.V(k.name+": "+what, buf, map[string]any{"values": nv, "cuts": cuts})
				v.Finding = fnd
				return v
			})
		}
		if pan != "" {
			fail("panic", pan, "")
			return
		}
		if e != sipsp.ErrHdrOk || nn != len(buf)-1 {
			fnd := ""
			if e == sipsp.ErrHdrBadChar && lwsBeforeComma(buf, nas) {
				fnd = "D12"
			}
			fail("rejected", fmt.Sprintf("well-formed value list not accepted: verdict %s offset %d (expected OK at %d)", errName(e), nn, len(buf)-1), fnd)
			return
		}
		if len(o.done)+1 != nv {
			fail("split", fmt.Sprintf("split into %d values, %d were written (commas inside quotes / <> must not split)", len(o.done)+1, nv), "")
			return
		}
		for i := 0; i < nv; i++ {
			pf := &o.cur
			if i < len(o.done) {
				pf = &o.done[i]
			}
			if what, fnd := cmpNA(pf, &nas[i], buf, k.kind); what != "" {
				fail("field", fmt.Sprintf("value %d of %d: %s", i, nv, what), fnd)
				return
			}
		}
		w.Inc("values_compared")
		w.Nontrivial(core.HashBytes(buf) ^ core.HashStr(k.name))
		if w.WantSample("stand-alone-values") {
			w.Sample("stand-alone-values", map[string]any{"parser": k.name, "value": core.Esc(buf)})
		}
	})
	r.Stage("contact-and-pai-lists", r.Pick(600000, 60000000), func(w *core.Worker, idx int64) {
		rr := core.NewRand(r.Seed, 0xC09, 2, uint64(idx))
		nv := rr.Range(1, 6)
		pai := rr.Intn(3) == 0
		buf, nas := gen.NameAddrValue(rr, nv, !pai, false)
		fail := func(cls, what, fnd string) {
			w.Fail(cls, func() *core.Violation {
				v := core.V(what, buf, map[string]any{"values": nv, "pai": pai})
				v.Finding = fnd
				return v
			})
		}
		cuts := []int{len(buf)}
		if rr.Intn(3) == 0 {
			cuts = CutsRandom(nil, rr, 0, len(buf), rr.Range(1, 5))
		}
		rejFinding := ""
		if lwsBeforeComma(buf, nas) {
			rejFinding = "D12"
		}
		if pai {
			o := &paisObj{}
			if rr.Intn(3) == 0 {
				ob := []byte([]string{"<sip:a>, \"x", "*\r\nX", "<sip:a>;p=1 , <sip:b>, <sip", "<sip:q>\r\nX"}[rr.Intn(4)])
				core.Guard(func() { sipsp.ParseAllPAIValues(ob, 0, &o.c); o.c.Reset() })
			}
			nn, e, _, pan := drive(o, buf, 0, cuts)
			w.Eval(1)
			if pan != "" {
				return
			}
			if e != sipsp.ErrHdrOk || nn != len(buf)-1 {
				fail("pai-list-rejected", fmt.Sprintf("ParseAllPAIValues: verdict %s offset %d", errName(e), nn), rejFinding)
				return
			}
			c := &o.c
			if c.N != nv || c.VNo() != minInt(nv, 2) || c.More() != (nv > 2) {
				fail("pai-list-count", fmt.Sprintf("ParseAllPAIValues: N=%d VNo()=%d More()=%v for %d written values", c.N, c.VNo(), c.More(), nv), "")
				return
			}
			for i := 0; i < c.VNo(); i++ {
				if what, fnd := cmpNA(&c.Vals[i], &nas[i], buf, sipsp.HdrPAI); what != "" {
					fail("pai-list-field", fmt.Sprintf("ParseAllPAIValues value %d: %s", i, what), fnd)
					return
				}
			}
			// (LastHVal is not among the things the statement lists; the header value it feeds is
			// judged where it becomes observable: Hdr.Val in C05/C07)
		} else {
			for cc := -1; cc <= nv+1; cc++ {
				o := &contactsObj{}
				o.c.Init(mkContacts(cc))
				if cc > 0 && rr.Intn(3) == 0 {
					// the list was used before: another value list abandoned somewhere, then Reset()
					ob, _ := gen.NameAddrValue(rr, rr.Range(1, 5), false, false)
					core.Guard(func() { sipsp.ParseAllContactValues(ob[:rr.Intn(len(ob)+1)], 0, &o.c); o.c.Reset() })
					w.Inc("lists_on_reused_objects")
				}
				nn, e, _, pan := drive(o, buf, 0, cuts)
				w.Eval(1)
				if pan != "" {
					return
				}
				if e != sipsp.ErrHdrOk || nn != len(buf)-1 {
					fail("contact-list-rejected", fmt.Sprintf("ParseAllContactValues(capacity %d): verdict %s offset %d", cc, errName(e), nn), rejFinding)
					return
				}
				c := &o.c
				capn := cc
				if capn < 0 {
					capn = 0
				}
				mn, mx := expSummary(nas)
				if c.N != nv || c.VNo() != minInt(nv, capn) || c.More() != (nv > capn) || c.MinExpires != mn || c.MaxExpires != mx {
					fail("contact-list-summary", fmt.Sprintf("ParseAllContactValues(capacity %d): N=%d VNo()=%d More()=%v MinExpires=%d MaxExpires=%d; written: %d values, min %d, max %d",
						cc, c.N, c.VNo(), c.More(), c.MinExpires, c.MaxExpires, nv, mn, mx), "")
					return
				}
				for i := 0; i < c.VNo(); i++ {
					if what, fnd := cmpNA(&c.Vals[i], &nas[i], buf, sipsp.HdrContact); what != "" {
						fail("contact-list-field", fmt.Sprintf("ParseAllContactValues(capacity %d) value %d: %s", cc, i, what), fnd)
						return
					}
				}
				if g0 := c.GetContact(0); g0 == nil {
					fail("contact-list-first", fmt.Sprintf("capacity %d: GetContact(0) is nil", cc), "")
					return
				} else if what, fnd := cmpNA(g0, &nas[0], buf, sipsp.HdrContact); what != "" {
					fail("contact-list-first", fmt.Sprintf("capacity %d: GetContact(0): %s", cc, what), fnd)
					return
				}
				if gl := c.GetContact(nv - 1); gl == nil {
					fail("contact-list-last", fmt.Sprintf("capacity %d: GetContact(N-1) is nil", cc), "")
					return
				} else if what, fnd := cmpNA(gl, &nas[nv-1], buf, sipsp.HdrContact); what != "" {
					fail("contact-list-last", fmt.Sprintf("capacity %d: GetContact(N-1): %s", cc, what), fnd)
					return
				}
			}
		}
		w.Inc("lists_compared")
		w.Nontrivial(core.HashBytes(buf))
	})
	r.Stage("inside-messages", r.Pick(600000, 60000000), func(w *core.Worker, idx int64) {
		rr := core.NewRand(r.Seed, 0xC09, 3, uint64(idx))
		m := gen.Msg(rr, gen.MsgOpts{MinHdrs: 2, MaxHdrs: 12, MultiNA: 50,
			Kinds: []int{gen.HFrom, gen.HTo, gen.HContact, gen.HContact, gen.HPAI, gen.HExpires, gen.HCSeq, gen.HCallID, gen.HVia, gen.HOtherKind}})
		buf := m.Raw
		var contacts, pais []gen.NASpec
		var from, to *gen.NASpec
		hno, phno := 0, 0
		expHdr, hasExpHdr := uint32(0), false
		for i := range m.Hdrs {
			h := &m.Hdrs[i]
			switch h.Type {
			case ref.HdrFrom:
				if from == nil {
					from = &h.NAs[0]
				}
			case ref.HdrTo:
				if to == nil {
					to = &h.NAs[0]
				}
			case ref.HdrContact:
				contacts = append(contacts, h.NAs...)
				hno++
			case ref.HdrPAI:
				pais = append(pais, h.NAs...)
				phno++
			case ref.HdrExpires:
				if !hasExpHdr {
					hasExpHdr, expHdr = true, h.Num
				}
			}
		}
		cc := []int{-1, 0, 1, 2, len(contacts), len(contacts) + 1}[rr.Intn(6)]
		o := newMsg(Cfg{HdrCap: []int{-1, 0, 3, 40}[rr.Intn(4)], ContactCap: cc, MsgFlags: sipsp.SIPMsgSkipBodyF}).(*msgObj)
		cuts := []int{len(buf)}
		if rr.Intn(3) == 0 {
			cuts = CutsRandom(nil, rr, 0, len(buf), rr.Range(1, 6))
		}
		_, e, _, pan := drive(o, buf, 0, cuts)
		w.Eval(1)
		if pan != "" {
			return
		}
		fail := func(cls, what, fnd string) {
			w.Fail(cls, func() *core.Violation {
				v := core.V(what, buf, map[string]any{"contact_cap": cc, "cuts": cuts})
				v.Finding = fnd
				return v
			})
		}
		if e != sipsp.ErrHdrOk {
			fnd := ""
			if e == sipsp.ErrHdrBadChar {
				for i := range m.Hdrs {
					if len(m.Hdrs[i].NAs) > 1 && lwsBeforeComma(buf, m.Hdrs[i].NAs) {
						fnd = "D12"
					}
				}
			}
			fail("message-rejected", fmt.Sprintf("well-formed message not accepted: %s", errName(e)), fnd)
			return
		}
		pv := &o.m.PV
		if from != nil {
			if what, fnd := cmpNA(&pv.From, from, buf, sipsp.HdrFrom); what != "" {
				fail("message-from", "PV.From: "+what, fnd)
				return
			}
		}
		if to != nil {
			if what, fnd := cmpNA(&pv.To, to, buf, sipsp.HdrTo); what != "" {
				fail("message-to", "PV.To: "+what, fnd)
				return
			}
		}
		c := &pv.Contacts
		mn, mx := expSummary(contacts)
		if len(contacts) == 0 {
			mn = 0
		}
		if c.N != len(contacts) || c.HNo != hno || c.MaxExpires != mx || c.MinExpires != mn {
			fail("message-contacts-summary", fmt.Sprintf("Contacts: N=%d HNo=%d MinExpires=%d MaxExpires=%d; written: %d values in %d headers, min %d max %d", c.N, c.HNo, c.MinExpires, c.MaxExpires, len(contacts), hno, mn, mx), "")
			return
		}
		for i := 0; i < c.VNo(); i++ {
			if what, fnd := cmpNA(&c.Vals[i], &contacts[i], buf, sipsp.HdrContact); what != "" {
				fail("message-contact", fmt.Sprintf("Contacts.Vals[%d]: %s", i, what), fnd)
				return
			}
		}
		// the first and the last contact stay retrievable whatever the array holds
		if nc := len(contacts); nc > 0 {
			for _, gi := range []int{0, nc - 1} {
				g := c.GetContact(gi)
				if g == nil {
					fail("message-contact-first-last", fmt.Sprintf("GetContact(%d) is nil (N=%d, capacity %d)", gi, nc, cc), "")
					return
				}
				if what, fnd := cmpNA(g, &contacts[gi], buf, sipsp.HdrContact); what != "" {
					fail("message-contact-first-last", fmt.Sprintf("GetContact(%d) (N=%d, capacity %d): %s", gi, nc, cc, what), fnd)
					return
				}
			}
		}
		pp := &pv.PAIs
		if pp.N != len(pais) || pp.HNo != phno {
			fail("message-pais-summary", fmt.Sprintf("PAIs: N=%d HNo=%d; written: %d values in %d headers", pp.N, pp.HNo, len(pais), phno), "")
			return
		}
		for i := 0; i < pp.VNo(); i++ {
			if what, fnd := cmpNA(&pp.Vals[i], &pais[i], buf, sipsp.HdrPAI); what != "" {
				fail("message-pai", fmt.Sprintf("PAIs.Vals[%d]: %s", i, what), fnd)
				return
			}
		}
		gm, gok := pv.MaxExpires()
		wm, wok := uint32(0), false
		if len(contacts) > 0 {
			wm, wok = mx, true
		}
		if hasExpHdr {
			if expHdr > wm {
				wm = expHdr
			}
			wok = true
		}
		anyExp := hasExpHdr
		for i := range contacts {
			anyExp = anyExp || contacts[i].HasExpires
		}
		// (when nothing in the message carries an expires value, whether the summary says
		// "0, present" or "0, absent" is not stated)
		if gm != wm || (gok != wok && anyExp) {
			fail("message-max-expires", fmt.Sprintf("PHdrVals.MaxExpires() = (%d,%v), expected (%d,%v) from %d contact values (max %d) and Expires header present=%v (%d)", gm, gok, wm, wok, len(contacts), mx, hasExpHdr, expHdr), "")
			return
		}
		w.Inc("messages_compared")
		w.Add("values_compared", int64(len(contacts)+len(pais)))
		w.Nontrivial(core.HashBytes(buf))
	})
	r.Require("C09 values compared", r.Counter("values_compared"), 50000)
	r.Require("C09 lists compared", r.Counter("lists_compared"), 20000)
	r.Require("C09 messages compared", r.Counter("messages_compared"), 20000)
}
