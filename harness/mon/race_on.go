//go:build race

package mon

const raceEnabled = true
