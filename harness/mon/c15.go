package mon

import (
	"fmt"
	"strings"

	"github.com/intuitivelabs/sipsp"

	"verif/harness/core"
	"verif/harness/gen"
)

func flipCase(rr *core.Rand, s string) string {
	b := []byte(s)
	changed := false
	for i, c := range b {
		if ((c >= 'a' && c <= 'z') || (c >= 'A' && c <= 'Z')) && rr.Bool() {
			// keep %XX escapes intact: hex digits after '%' may be re-cased too (they are letters), that is fine for CmpEq
			b[i] = c ^ 0x20
			changed = true
		}
	}
	_ = changed
	return string(b)
}

// recase returns a variant of u that differs only in the letter case of
// scheme, host, parameter names/values and header names.
func recase(rr *core.Rand, u *gen.URIParts) *gen.URIParts {
	v := u.Clone()
	v.Scheme = flipCase(rr, v.Scheme)
	v.Host = flipCase(rr, v.Host)
	for i := range v.Params {
		v.Params[i].K = flipCase(rr, v.Params[i].K)
		v.Params[i].V = flipCase(rr, v.Params[i].V)
	}
	for i := range v.Hdrs {
		v.Hdrs[i].K = flipCase(rr, v.Hdrs[i].K)
	}
	return v
}

// permute returns a variant with parameters and headers re-ordered.
func permute(rr *core.Rand, u *gen.URIParts) *gen.URIParts {
	v := u.Clone()
	pp := rr.Perm(len(v.Params))
	for i, j := range pp {
		v.Params[i] = u.Params[j]
	}
	ph := rr.Perm(len(v.Hdrs))
	for i, j := range ph {
		v.Hdrs[i] = u.Hdrs[j]
	}
	return v
}

type cmpRes struct {
	eq  bool
	err sipsp.ErrorURI
	k   int
	pan string
}

func rawCmp(a, b []byte, f sipsp.URICmpFlags) (r cmpRes) {
	pan, msg, _ := core.Guard(func() { r.eq, r.err, r.k = sipsp.URIRawCmp(a, b, f) })
	if pan {
		r.pan = msg
	}
	return
}

// RunC15 is the monitor for C15.
func RunC15(r *core.Run) {
	r.Rule = "case = a pair (or triple) of component-wise generated URIs (duplicate-free well-formed parameter/header lists, <= 100 entries) and a skip-flag set; laws: reflexive, symmetric (all 64 flag sets), invariant under re-casing of scheme/host/parameter names+values/header names and under permutation of parameters/headers (also against a third URI), user and password case-sensitive, user/ttl/method/maddr one-sided => unequal, monotone in the flags, URIRawCmp == URIParseCmp == ParseURI x2 + URICmp incl. the r1/r2 handed back, URIParamsEq/URIHdrsEq agree with the list-level functions; non-trivial = both URIs accepted and at least one law compared two different texts; distinct by hash of the texts"
	r.Assume = []string{"letter-case invariance is demanded only for the components the statement lists (not header values, not user/password)", "lists longer than the 100-entry scratch of the compare helpers are outside the generator"}
	n := r.Pick(150000, 6000000)
	r.Stage("laws", n, func(w *core.Worker, idx int64) {
		rr := core.NewRand(r.Seed, 0xC15, 1, uint64(idx))
		A := gen.URI(rr)
		var B *gen.URIParts
		switch rr.Intn(5) {
		case 0:
			B = gen.URI(rr)
		case 1:
			B = A.Clone()
		default:
			// a neighbour of A: change / drop / add one component
			B = A.Clone()
			switch rr.Intn(8) {
			case 0:
				B.User = gen.URI(rr).User
			case 1:
				B.Host = gen.URI(rr).Host
			case 2:
				B.Port = gen.URI(rr).Port
			case 3:
				if len(B.Params) > 0 {
					i := rr.Intn(len(B.Params))
					B.Params = append(B.Params[:i:i], B.Params[i+1:]...)
				}
			case 4:
				if len(B.Params) > 0 {
					B.Params[rr.Intn(len(B.Params))].V = "zz9"
				}
			case 5:
				if len(B.Hdrs) > 0 {
					i := rr.Intn(len(B.Hdrs))
					B.Hdrs = append(B.Hdrs[:i:i], B.Hdrs[i+1:]...)
				}
			case 6:
				if len(B.Hdrs) > 0 {
					B.Hdrs[rr.Intn(len(B.Hdrs))].V = "other"
				}
			case 7:
				B.Pass = gen.URI(rr).Pass
			}
		}
		C := gen.URI(rr)
		a, b, c := []byte(A.String()), []byte(B.String()), []byte(C.String())
		if rr.Intn(4) == 0 {
			// an unrelated earlier comparison that failed half-way (malformed second list)
			// must not influence this one
			// (same user/host/port and parameters as a, so that the comparison gets as far as the lists)
			bp := A.Clone()
			switch rr.Intn(4) {
			case 0:
				bp.Hdrs = []gen.KV{{K: "subject", V: "a=b", HasVal: true}}
			case 1:
				bp.Hdrs = append(bp.Hdrs, gen.KV{K: "b", V: "\"open", HasVal: true})
			case 2:
				bp.Params = append(bp.Params, gen.KV{K: "x", V: "a=b", HasVal: true})
			default:
				bp.Params = append([]gen.KV{{K: "p", V: "\"open", HasVal: true}}, bp.Params...)
			}
			bad := []byte(bp.String())
			rawCmp(a, bad, 0)
			rawCmp(bad, a, 0)
			w.Inc("poisoned_predecessor")
		}
		var pa, pb sipsp.PsipURI
		ea, _ := sipsp.ParseURI(a, &pa)
		eb, _ := sipsp.ParseURI(b, &pb)
		if ea != 0 || eb != 0 {
			w.Inc("generated_uri_rejected")
			w.Fail("generator-uri-rejected", func() *core.Violation {
				return core.V(fmt.Sprintf("a generated well-formed URI was rejected: %q -> %v / %q -> %v", a, ea, b, eb), a, nil)
			})
			return
		}
		fail := func(cls, what string) {
			w.Fail(cls, func() *core.Violation {
				return core.V(what, a, map[string]any{"a": string(a), "b": string(b), "c": string(c)})
			})
		}
		flagsets := []sipsp.URICmpFlags{0, sipsp.URICmpFlags(rr.Intn(64)), sipsp.URICmpFlags(rr.Intn(64))}
		if idx%16 == 0 {
			flagsets = flagsets[:0]
			for f := 0; f < 64; f++ {
				flagsets = append(flagsets, sipsp.URICmpFlags(f))
			}
		}
		ar, pr := recase(rr, A), permute(rr, A)
		arb, prb := []byte(ar.String()), []byte(pr.String())
		res := map[sipsp.URICmpFlags]bool{}
		for _, f := range flagsets {
			ab := rawCmp(a, b, f)
			ba := rawCmp(b, a, f)
			aa := rawCmp(a, a, f)
			w.Eval(3)
			if ab.pan != "" || ba.pan != "" || aa.pan != "" {
				w.Inc("panicked(left to C04)")
				return
			}
			if !aa.eq || aa.err != 0 {
				fail("reflexive", fmt.Sprintf("URIRawCmp(a,a,%#x) = %v (err %v) for a=%q", f, aa.eq, aa.err, a))
				return
			}
			if ab.eq != ba.eq {
				fail("symmetric", fmt.Sprintf("URIRawCmp(a,b,%#x)=%v but URIRawCmp(b,a,%#x)=%v for a=%q b=%q", f, ab.eq, f, ba.eq, a, b))
				return
			}
			res[f] = ab.eq
			// case / permutation variants are equal to the original and compare alike against b and c
			for vi, vb := range [][]byte{arb, prb} {
				vn := []string{"re-cased", "permuted"}[vi]
				x := rawCmp(a, vb, f)
				w.Eval(1)
				if !x.eq {
					fail("variant-equal/"+vn, fmt.Sprintf("a=%q and its %s variant %q compare different (flags %#x, err %v)", a, vn, vb, f, x.err))
					return
				}
				for _, o := range [][]byte{b, c} {
					y1, y2 := rawCmp(a, o, f), rawCmp(vb, o, f)
					w.Eval(2)
					if y1.eq != y2.eq {
						fail("variant-alike/"+vn, fmt.Sprintf("a=%q vs o=%q gives %v but the %s variant %q vs o gives %v (flags %#x)", a, o, y1.eq, vn, vb, y2.eq, f))
						return
					}
				}
			}
			// entry points agree
			var r1, r2 sipsp.PsipURI
			if rr.Bool() {
				// the caller's result structures were used before (they are outputs only)
				sipsp.ParseURI(c, &r1)
				sipsp.ParseURI([]byte("sips:old:pw@[::9]:5099;ttl=3;maddr=h?old=1"), &r2)
			}
			var peq bool
			var perr sipsp.ErrorURI
			pan, _, _ := core.Guard(func() { peq, perr, _ = sipsp.URIParseCmp(a, b, f, &r1, &r2) })
			var direct bool
			core.Guard(func() { direct = sipsp.URICmp(&pa, a, &pb, b, f) })
			w.Eval(2)
			if pan || perr != 0 || peq != ab.eq || direct != ab.eq {
				fail("entry-points", fmt.Sprintf("URIRawCmp=%v URIParseCmp=%v (err %v) ParseURI+URICmp=%v for a=%q b=%q flags %#x", ab.eq, peq, perr, direct, a, b, f))
				return
			}
			if r1 != pa || r2 != pb {
				fnd := ""
				if r2 == pa && r1 == pa {
					fnd = "D8"
				}
				w.Fail("handed-back-uris", func() *core.Violation {
					v := core.V(fmt.Sprintf("URIParseCmp(a,b) handed back r1=%+v r2=%+v; parsing a and b separately gives %+v and %+v", r1, r2, pa, pb), a, map[string]any{"a": string(a), "b": string(b)})
					v.Finding = fnd
					return v
				})
				return
			}
			// short compare is implied by the full compare with params+headers skipped
			var sh, full bool
			core.Guard(func() {
				sh = sipsp.URICmpShort(&pa, a, &pb, b, f)
				full = sipsp.URICmp(&pa, a, &pb, b, f|sipsp.URICmpSkipParams|sipsp.URICmpSkipHeaders)
			})
			if sh != full {
				fail("short-vs-full", fmt.Sprintf("URICmpShort=%v but URICmp with parameters and headers skipped=%v (a=%q b=%q flags %#x)", sh, full, a, b, f))
				return
			}
		}
		// monotone in the flags
		for f, eq := range res {
			if !eq {
				continue
			}
			for g, eq2 := range res {
				if f&g == f && !eq2 {
					fail("monotone", fmt.Sprintf("equal with flags %#x but different with the superset %#x (a=%q b=%q)", f, g, a, b))
					return
				}
			}
		}
		// user / password are case sensitive
		if A.User != "" && strings.ToLower(A.User) != strings.ToUpper(A.User) {
			U := A.Clone()
			U.User = swapOneLetter(A.User)
			x := rawCmp(a, []byte(U.String()), 0)
			w.Eval(1)
			if x.eq {
				fail("user-case", fmt.Sprintf("%q and %q (user differs in letter case) compare equal", a, U.String()))
			}
			if A.Pass != "" && strings.ToLower(A.Pass) != strings.ToUpper(A.Pass) {
				P := A.Clone()
				P.Pass = swapOneLetter(A.Pass)
				if x := rawCmp(a, []byte(P.String()), 0); x.eq {
					fail("password-case", fmt.Sprintf("%q and %q (password differs in letter case) compare equal", a, P.String()))
				}
			}
		}
		// user / ttl / method / maddr present on one side only
		for _, k := range []string{"user", "ttl", "method", "maddr"} {
			has := false
			for _, p := range A.Params {
				if strings.EqualFold(p.K, k) {
					has = true
				}
			}
			if has {
				continue
			}
			O := A.Clone()
			O.Params = append(O.Params, gen.KV{K: gen.RandCase(rr, k), V: "1", HasVal: true})
			ob := []byte(O.String())
			x, y := rawCmp(a, ob, 0), rawCmp(ob, a, 0)
			w.Eval(2)
			if x.eq || y.eq {
				fail("one-sided-"+k, fmt.Sprintf("%q and %q (%s parameter on one side only) compare equal", a, ob, k))
			}
		}
		// list-level helpers agree
		if pa.Params.Len > 0 || pb.Params.Len > 0 {
			var e1 bool
			var err sipsp.ErrorHdr
			var l1, l2 sipsp.URIParamsLst
			core.Guard(func() {
				e1, err = sipsp.URIParamsEq(pa.Params.Get(a), 0, pb.Params.Get(b), 0)
				l1.Init(make([]sipsp.URIParam, 100))
				l2.Init(make([]sipsp.URIParam, 100))
				sipsp.ParseAllURIParams(pa.Params.Get(a), 0, &l1, sipsp.POptTokURIParamF|sipsp.POptInputEndF)
				sipsp.ParseAllURIParams(pb.Params.Get(b), 0, &l2, sipsp.POptTokURIParamF|sipsp.POptInputEndF)
			})
			var e2 bool
			core.Guard(func() { e2 = sipsp.URIParamsLstEq(&l1, pa.Params.Get(a), &l2, pb.Params.Get(b)) })
			w.Eval(2)
			if err == 0 && e1 != e2 {
				fail("params-helpers", fmt.Sprintf("URIParamsEq=%v but ParseAllURIParams+URIParamsLstEq=%v for %q / %q", e1, e2, pa.Params.Get(a), pb.Params.Get(b)))
			}
		}
		if pa.Headers.Len > 0 || pb.Headers.Len > 0 {
			var e1, e2 bool
			var err sipsp.ErrorHdr
			var l1, l2 sipsp.URIHdrsLst
			core.Guard(func() {
				e1, err = sipsp.URIHdrsEq(pa.Headers.Get(a), 0, pb.Headers.Get(b), 0)
				l1.Init(make([]sipsp.URIHdr, 100))
				l2.Init(make([]sipsp.URIHdr, 100))
				sipsp.ParseAllURIHdrs(pa.Headers.Get(a), 0, &l1, sipsp.POptTokURIHdrF|sipsp.POptInputEndF)
				sipsp.ParseAllURIHdrs(pb.Headers.Get(b), 0, &l2, sipsp.POptTokURIHdrF|sipsp.POptInputEndF)
				e2 = sipsp.URIHdrsLstEq(&l1, pa.Headers.Get(a), &l2, pb.Headers.Get(b))
			})
			w.Eval(2)
			if err == 0 && e1 != e2 {
				fail("headers-helpers", fmt.Sprintf("URIHdrsEq=%v but ParseAllURIHdrs+URIHdrsLstEq=%v for %q / %q", e1, e2, pa.Headers.Get(a), pb.Headers.Get(b)))
			}
		}
		if res[0] {
			w.Inc("equal_pairs")
		} else {
			w.Inc("different_pairs")
		}
		w.Nontrivial(core.HashBytes(a) ^ core.HashBytes(b)<<1 ^ core.HashBytes(c)<<2)
		w.Inc("nontrivial_cases")
		if w.WantSample("laws") {
			w.Sample("laws", map[string]any{"a": string(a), "b": string(b), "c": string(c), "recased_a": string(arb), "permuted_a": string(prb)})
		}
	})
	// long parameter / header lists (up to the 100-entry scratch of the compare helpers)
	r.Stage("long-lists", r.Pick(20000, 600000), func(w *core.Worker, idx int64) {
		rr := core.NewRand(r.Seed, 0xC15, 2, uint64(idx))
		A := &gen.URIParts{Scheme: "sip", User: "u", Host: "h.example"}
		np := []int{0, 1, 7, 8, 9, 31, 32, 33, 63, 64, 65, 66, 99, 100}[rr.Intn(14)]
		nh := []int{0, 1, 7, 8, 9, 31, 32, 33, 63, 64, 65, 66, 99, 100}[rr.Intn(14)]
		if rr.Intn(3) == 0 {
			np, nh = rr.Intn(101), rr.Intn(101)
		}
		for i := 0; i < np; i++ {
			kv := gen.KV{K: fmt.Sprintf("p%dx", i), V: fmt.Sprintf("v%d", rr.Intn(1000)), HasVal: rr.Intn(6) > 0}
			if i == 3 && rr.Bool() {
				kv = gen.KV{K: "transport", V: "tcp", HasVal: true}
			}
			A.Params = append(A.Params, kv)
		}
		for i := 0; i < nh; i++ {
			A.Hdrs = append(A.Hdrs, gen.KV{K: fmt.Sprintf("h%dy", i), V: fmt.Sprintf("w%d", rr.Intn(1000)), HasVal: true})
		}
		a := []byte(A.String())
		fail := func(cls, what string, o []byte) {
			w.Fail(cls, func() *core.Violation {
				return core.V(what, a, map[string]any{"params": np, "headers": nh, "other": string(o)})
			})
		}
		for vi, V := range []*gen.URIParts{A, permute(rr, A), recase(rr, A)} {
			vb := []byte(V.String())
			for _, f := range []sipsp.URICmpFlags{0, sipsp.URICmpFlags(rr.Intn(64))} {
				x, y := rawCmp(a, vb, f), rawCmp(vb, a, f)
				w.Eval(2)
				if x.pan != "" || y.pan != "" {
					return
				}
				if !x.eq || !y.eq || x.err != 0 {
					fail("long-list-variant-equal", fmt.Sprintf("URI with %d parameters and %d headers compared with its %s (flags %#x): %v / %v (err %v)", np, nh,
						[]string{"identical copy", "permuted variant", "re-cased variant"}[vi], f, x.eq, y.eq, x.err), vb)
					return
				}
			}
		}
		// one value changed somewhere => different (unless that component is skipped)
		if np+nh > 0 {
			B := A.Clone()
			var skip sipsp.URICmpFlags
			if k := rr.Intn(np + nh); k < np {
				B.Params[k].V, B.Params[k].HasVal = "CHANGED", true
				skip = sipsp.URICmpSkipParams
			} else {
				B.Hdrs[k-np].V = "CHANGED"
				skip = sipsp.URICmpSkipHeaders
			}
			bb := []byte(B.String())
			x, y, z := rawCmp(a, bb, 0), rawCmp(bb, a, 0), rawCmp(a, bb, skip)
			w.Eval(3)
			if x.pan == "" && (x.eq || y.eq || !z.eq) {
				fail("long-list-one-value-changed", fmt.Sprintf("%d parameters / %d headers, one value changed: equal=%v/%v, with that component skipped equal=%v", np, nh, x.eq, y.eq, z.eq), bb)
				return
			}
		}
		// more parameters than the 100-entry scratch on one side only: still symmetric
		if np > 0 {
			big := A.Clone()
			ch := rr.Intn(len(big.Params))
			changed := big.Params[ch]
			changed.V, changed.HasVal = "CHANGED", true
			big.Params = append(big.Params[:ch:ch], big.Params[ch+1:]...)
			for i := 0; len(big.Params) < 101+rr.Intn(40); i++ {
				big.Params = append(big.Params, gen.KV{K: fmt.Sprintf("e%dz", i), V: "1", HasVal: true})
			}
			big.Params = append(big.Params, changed) // the shared, differing parameter comes last
			bb := []byte(big.String())
			x, y := rawCmp(a, bb, sipsp.URICmpSkipHeaders), rawCmp(bb, a, sipsp.URICmpSkipHeaders)
			w.Eval(2)
			if x.pan == "" && y.pan == "" && x.eq != y.eq {
				fail("long-list-symmetric", fmt.Sprintf("%d vs %d parameters: cmp(a,b)=%v cmp(b,a)=%v", np, len(big.Params), x.eq, y.eq), bb)
				return
			}
		}
		// a user / ttl / method / maddr parameter on ONE side only, placed behind more than a hundred
		// other parameters that both sides share: still "present in both or neither"
		{
			X := A.Clone()
			for i := 0; len(X.Params) < 100+rr.Intn(30); i++ {
				X.Params = append(X.Params, gen.KV{K: fmt.Sprintf("f%dq", i), V: "1", HasVal: true})
			}
			Y := X.Clone()
			Y.Params = append(Y.Params, []gen.KV{{K: "user", V: "phone", HasVal: true}, {K: "TTL", V: "3", HasVal: true}, {K: "method", V: "INVITE", HasVal: true}, {K: "Maddr", V: "h2", HasVal: true}}[rr.Intn(4)])
			xb, yb := []byte(X.String()), []byte(Y.String())
			x, y := rawCmp(xb, yb, sipsp.URICmpSkipHeaders), rawCmp(yb, xb, sipsp.URICmpSkipHeaders)
			w.Eval(2)
			if x.pan == "" && y.pan == "" && x.err == 0 && y.err == 0 && (x.eq || y.eq) {
				fail("long-list-one-sided", fmt.Sprintf("%d shared parameters, then %q on one side only: equal=%v/%v", len(X.Params), Y.Params[len(Y.Params)-1].K, x.eq, y.eq), yb)
				return
			}
		}
		w.Nontrivial(core.HashBytes(a))
		w.Inc("long_lists")
	})
	// tel: URIs keep their number in the user component: case-sensitive like every user part, while
	// the scheme and the parameter names/values are not
	telNums := []string{"+1-800-abcd", "*21#B", "123a", "+49(30)Abc", "911x", "+1-212-555-0101-Z"}
	telPars := []string{"", ";ext=5", ";phone-context=Example.com", ";isub=AbC;ext=12"}
	r.Stage("tel-user-case", r.Pick(40000, 2000000), func(w *core.Worker, idx int64) {
		rr := core.NewRand(r.Seed, 0xC15, 9, uint64(idx))
		num := telNums[rr.Intn(len(telNums))]
		par := telPars[rr.Intn(len(telPars))]
		a := []byte("tel:" + num + par)
		b := []byte(gen.RandCase(rr, "tel") + ":" + num + gen.RandCase(rr, par))
		c := []byte("tel:" + swapOneLetter(num) + par)
		f := sipsp.URICmpFlags(rr.Intn(64)) &^ sipsp.URICmpSkipUser
		same, diff := rawCmp(a, b, f), rawCmp(a, c, f)
		w.Eval(2)
		if same.pan != "" || diff.pan != "" || same.err != 0 || diff.err != 0 {
			return
		}
		if !same.eq {
			w.Fail("tel-recased", func() *core.Violation {
				return core.V(fmt.Sprintf("%q and %q (scheme / parameters re-cased only) compare different with flags %#x", a, b, f), a, nil)
			})
			return
		}
		if diff.eq {
			w.Fail("user-case", func() *core.Violation {
				return core.V(fmt.Sprintf("%q and %q (the number, i.e. the user part, differs in letter case) compare equal with flags %#x", a, c, f), a, nil)
			})
			return
		}
		w.Nontrivial(core.HashBytes(a) ^ core.HashBytes(b)<<1 ^ uint64(f)<<56)
		w.Inc("tel_pairs_judged")
	})
	// parameter / header sections whose lengths add up to 2^16 (and neighbours): a one-sided
	// user= parameter must still make the URIs different, a re-cased copy must still be equal
	hugePairs := [][2]int{{32768, 32768}, {32767, 32769}, {40000, 25536}, {65000, 536}, {65535 - 8, 9}, {32768, 32767}, {20000, 45536}}
	st := r.Stage("huge-sections", int64(len(hugePairs))*2, func(w *core.Worker, idx int64) {
		hp := hugePairs[idx/2]
		hdrs := idx%2 == 1
		mk := func(n int, oneSided bool, upper bool) []byte {
			sec := ""
			if oneSided && !hdrs {
				sec = "user=phone;"
			} else if oneSided {
				sec = "extra=1&"
			}
			fill := byte('a')
			if upper && !hdrs {
				fill = 'A' // (parameter values are case-insensitive; for headers only the NAME is)
			}
			if upper {
				sec += "P="
			} else {
				sec += "p="
			}
			b := []byte("sip:h")
			if hdrs {
				b = append(b, '?')
			} else {
				b = append(b, ';')
			}
			b = append(b, sec...)
			for len(sec) < n {
				b = append(b, fill)
				n--
			}
			return b
		}
		a, b2, ar := mk(hp[0], true, false), mk(hp[1], false, false), mk(hp[0], true, true)
		diff, same := rawCmp(a, b2, 0), rawCmp(a, ar, 0)
		w.Eval(2)
		if diff.pan != "" || same.pan != "" || diff.err != 0 || same.err != 0 {
			w.Inc("huge_sections_not_accepted")
			return
		}
		what := ""
		if diff.eq && !hdrs { // (that a one-sided header makes URIs different is not among the stated laws)
			what = fmt.Sprintf("a URI with a %d-byte parameter section that has a one-sided user= compares EQUAL to one with a %d-byte section without it", hp[0], hp[1])
		} else if !same.eq {
			what = fmt.Sprintf("a URI with a %d-byte section and its re-cased copy compare different", hp[0])
		}
		if what != "" {
			w.Fail("huge-sections", func() *core.Violation {
				return core.V(what, a[:64], map[string]any{"section_lengths": hp, "headers": hdrs})
			})
			return
		}
		w.NontrivialEnum()
		w.Inc("huge_pairs_judged")
	})
	st.Exhaustive = true
	st.Space = "7 pairs of section lengths around a sum of 65536, for parameters and for headers"
	r.Require("C15 tel: pairs judged", r.Counter("tel_pairs_judged"), 1000)
	r.Require("C15 equal pairs", r.Counter("equal_pairs"), 1000)
	r.Require("C15 different pairs", r.Counter("different_pairs"), 1000)
}

func swapOneLetter(s string) string {
	b := []byte(s)
	for i, c := range b {
		if (c >= 'a' && c <= 'z') || (c >= 'A' && c <= 'Z') {
			b[i] = c ^ 0x20
			break
		}
	}
	return string(b)
}
