package mon

import (
	"bytes"
	"fmt"

	"github.com/intuitivelabs/sipsp"

	"verif/harness/core"
	"verif/harness/gen"
	"verif/harness/view"
)

// resetKinds: how a used object is made new again.
const (
	rkReset = iota
	rkInit
	rkResetInit
	rkCount
)

// doReset applies a reset kind to a used object (Init only exists for some types).
func doReset(o Obj, kind int, cfg Cfg) {
	switch x := o.(type) {
	case *msgObj:
		switch kind {
		case rkReset:
			x.m.Reset()
		case rkInit:
			x.m.Init(nil, callerHdrs(&x.m, cfg), callerContacts(&x.m, cfg))
		default:
			x.m.Reset()
			x.m.Init(nil, callerHdrs(&x.m, cfg), callerContacts(&x.m, cfg))
		}
	case *hdrLineObj:
		x.h.Reset()
		if x.pv != nil {
			if kind == rkReset {
				x.pv.Reset()
			} else {
				x.pv.Init(x.pv.Contacts.Vals)
			}
		}
	case *headersObj:
		x.hl.Reset()
		if x.pv != nil {
			if kind == rkReset {
				x.pv.Reset()
			} else if kind == rkInit {
				x.pv.Init(x.pv.Contacts.Vals)
			} else {
				// the caller alternates between two contact arrays of its own (never cleaned by
				// the harness): A, B, A, ...
				cur := x.pv.Contacts.Vals
				if x.alt == nil {
					x.alt = mkContacts(cfg.ContactCap)
				}
				x.pv.Init(x.alt)
				x.alt = cur
			}
		}
	case *contactsObj:
		x.c.Reset()
		if kind != rkReset {
			x.c.Init(x.c.Vals)
		}
	case *paisObj:
		if kind == rkReset {
			x.c.Reset()
		} else {
			x.c.Init()
		}
	case *uriParamsObj:
		x.l.Reset()
		x.vno = 0
		if kind != rkReset {
			x.l.Init(x.l.Params)
		}
	case *uriHdrsObj:
		x.l.Reset()
		x.vno = 0
		if kind != rkReset {
			x.l.Init(x.l.Hdrs)
		}
	default:
		o.Reset()
	}
}

// callerHdrs returns the caller supplied header array of a message object
// (nil when the built-in array is in use).
func callerHdrs(m *sipsp.PSIPMsg, cfg Cfg) []sipsp.Hdr {
	if cfg.HdrCap < 0 {
		return nil
	}
	return m.HL.Hdrs
}
func callerContacts(m *sipsp.PSIPMsg, cfg Cfg) []sipsp.PFromBody {
	if cfg.ContactCap < 0 {
		return nil
	}
	return m.PV.Contacts.Vals
}

type histOp struct {
	dirty   []byte // optional: parsed straight into the message's parts after the op
	in      []byte
	cuts    []int // last cut == abandon point (may be < len(in))
	rk      int
	abandon int
}

// checkHistory applies the ops to ONE object with resets in between; each op
// is mirrored on a NEW object; every (verdict, offset) and the definitive view
// must agree.
func checkHistory(w *core.Worker, p *ParserDef, cfg Cfg, ops []histOp) (judged int) {
	return checkHistoryC(w, p, cfg, ops, nil)
}

// checkHistoryC: cfgs (optional, message objects only) gives the arrays the object is
// re-initialised with (Init) before each op: the object must then behave like a new
// object with THOSE arrays, whatever arrays it used before.
func checkHistoryC(w *core.Worker, p *ParserDef, cfg0 Cfg, ops []histOp, cfgs []Cfg) (judged int) {
	s := sc(w)
	cfg := cfg0
	var poolH map[int][]sipsp.Hdr
	var poolC map[int][]sipsp.PFromBody
	if cfgs != nil {
		cfg = cfgs[0]
	}
	U := p.New(cfg)
	if cfgs != nil {
		// the arrays the object starts with are part of the pool
		mo := U.(*msgObj)
		poolH, poolC = map[int][]sipsp.Hdr{}, map[int][]sipsp.PFromBody{}
		if cfg.HdrCap >= 0 {
			poolH[cfg.HdrCap] = mo.m.HL.Hdrs
		}
		if cfg.ContactCap >= 0 {
			poolC[cfg.ContactCap] = mo.m.PV.Contacts.Vals
		}
	}
	for st := range ops {
		op := &ops[st]
		N := p.New(cfg)
		ou, on := 0, 0
		defin := false
		for _, cut := range op.cuts {
			nu, eu, panu, stk := safeCall(U, s.isoPrefix(op.in[:cut], cut), ou)
			nn, en, pann, _ := safeCall(N, s.exactPrefix(op.in[:cut]), on)
			w.Eval(1)
			describe := func() map[string]any {
				d := map[string]any{"parser": p.Name, "hdr_cap": cfg.HdrCap, "contact_cap": cfg.ContactCap, "param_cap": cfg.ParamCap,
					"msg_flags": cfg.MsgFlags, "tok_flags": uint(cfg.Flags), "history_step": st}
				var hs []map[string]any
				for i := 0; i <= st; i++ {
					h := map[string]any{"input": core.Esc(ops[i].in), "cuts": ops[i].cuts, "abandoned_at": ops[i].abandon,
						"then": []string{"Reset", "Init", "Reset+Init"}[ops[i].rk]}
					if cfgs != nil {
						h["then"] = "Init with the arrays of the next step"
						h["hdr_cap"], h["contact_cap"] = cfgs[i].HdrCap, cfgs[i].ContactCap
					}
					hs = append(hs, h)
				}
				d["history"] = hs
				return d
			}
			if panu != "" || pann != "" {
				if st == 0 || (panu != "" && pann != "") {
					w.Inc("both_panicked(left to C04)")
					return
				}
				w.Fail("panic-after-reset/"+p.Name, func() *core.Violation {
					v := core.V(fmt.Sprintf("%s: after %s the used object panicked=%q, a new object panicked=%q", p.Name,
						[]string{"Reset", "Init", "Reset+Init"}[ops[st-1].rk], panu, pann), op.in, describe())
					v.Stack = stk
					return v
				})
				return
			}
			if nu != nn || eu != en {
				if st == 0 {
					panic("harness bug: two new objects disagree")
				}
				w.Fail("verdict-after-reset/"+p.Name, func() *core.Violation {
					return core.V(fmt.Sprintf("%s: after %s (history step %d) the used object returns (offs=%d, %s) where a new object returns (offs=%d, %s)",
						p.Name, []string{"Reset", "Init", "Reset+Init"}[ops[st-1].rk], st, nu, errName(eu), nn, errName(en)), op.in, describe())
				})
				return
			}
			if eu != sipsp.ErrHdrMoreBytes {
				defin = true
				pu := viewOf(&s.v1, U, cut, view.MsgOpt{}, false)
				pn := viewOf(&s.v2, N, cut, view.MsgOpt{}, false)
				if pu != "" || pn != "" || !view.Equal(&s.v1, &s.v2) {
					if st == 0 {
						panic("harness bug: views of two new objects disagree")
					}
					cutc := cut
					w.Fail("view-after-reset/"+p.Name, func() *core.Violation {
						viewOf(&s.v1, U, cutc, view.MsgOpt{}, true)
						viewOf(&s.v2, N, cutc, view.MsgOpt{}, true)
						return core.V(fmt.Sprintf("%s: after %s (history step %d) the used object's result differs from a new object's: %s",
							p.Name, []string{"Reset", "Init", "Reset+Init"}[ops[st-1].rk], st, view.Diff(&s.v1, &s.v2)), op.in, describe())
					})
					return
				}
				break
			}
			ou, on = nu, nn
		}
		if st > 0 && defin {
			judged++
		}
		if op.dirty != nil {
			// before the reset the object's parts are used directly (exported fields + exported
			// part parsers): whatever that leaves behind, Reset/Init must make the object new
			if mo, ok := U.(*msgObj); ok {
				core.Guard(func() {
					n, _ := sipsp.ParseFLine(op.dirty, 0, &mo.m.FL)
					sipsp.ParseHeaders(op.dirty, n, &mo.m.HL, &mo.m.PV)
				})
			} else if ho, ok := U.(*headersObj); ok {
				// the caller uses the exported bookkeeping of the list itself: registers a
				// first-of-type shortcut by hand and clears / sets type flags
				core.Guard(func() {
					for _, c := range op.dirty {
						t := sipsp.HdrT(1 + int(c)%13)
						h := sipsp.Hdr{Type: t, Name: sipsp.PField{Offs: 1, Len: 3}, Val: sipsp.PField{Offs: 5, Len: 9}}
						switch c % 3 {
						case 0:
							ho.hl.SetHdr(&h)
						case 1:
							ho.hl.PFlags.Clear(t)
						default:
							ho.hl.PFlags.Set(t)
						}
					}
				})
			} else {
				// list objects: several more calls add to the same object (pieces separated by
				// a 0 byte; empty and blank pieces are calls, too)
				core.Guard(func() {
					for _, piece := range bytes.Split(op.dirty, []byte{0}) {
						U.Call(piece, 0)
					}
				})
			}
		}
		if cfgs != nil && st+1 < len(ops) {
			// Init with (possibly) other arrays; arrays of the same capacity are the SAME slices
			// each time (a caller cycling through its own pool), never cleaned by the harness
			next := cfgs[st+1]
			mo := U.(*msgObj)
			if poolH == nil {
				poolH, poolC = map[int][]sipsp.Hdr{}, map[int][]sipsp.PFromBody{}
			}
			if _, ok := poolH[next.HdrCap]; !ok {
				poolH[next.HdrCap] = mkHdrs(next.HdrCap)
			}
			if _, ok := poolC[next.ContactCap]; !ok {
				poolC[next.ContactCap] = mkContacts(next.ContactCap)
			}
			hs, cs := poolH[next.HdrCap], poolC[next.ContactCap]
			if pan, pmsg, stk := core.Guard(func() { mo.m.Init(nil, hs, cs) }); pan {
				w.Fail("panic-in-reset/"+p.Name, func() *core.Violation {
					v := core.V("Init panicked: "+pmsg, op.in, nil)
					v.Stack = stk
					return v
				})
				return
			}
			mo.flags = next.MsgFlags
			cfg = next
			continue
		}
		if pan, pmsg, stk := core.Guard(func() { doReset(U, op.rk, cfg) }); pan {
			w.Fail("panic-in-reset/"+p.Name, func() *core.Violation {
				v := core.V("reset operation panicked: "+pmsg, op.in, nil)
				v.Stack = stk
				return v
			})
			return
		}
	}
	return
}

func histInput(rr *core.Rand, p *ParserDef, cfg *Cfg, corpus [][]byte) []byte {
	if p.Name == "ParseAllPAIValues" || p.Name == "ParseOnePAI" {
		if rr.Intn(5) == 0 {
			// '*' is syntactically a value but not a legal identity: the parse fails late
			return []byte([]string{"*\r\nX", "<sip:a>, *\r\nX", " * \r\nX", "\"n\" <sip:b>,*,<sip:c>\r\nX"}[rr.Intn(4)])
		}
	}
	if p.IsMsg || p.Group == "hdrpv" || p.Group == "hdr" {
		var in []byte
		if cfg.HdrCap > 32 && rr.Intn(2) == 0 {
			in = gen.Msg(rr, gen.MsgOpts{MinHdrs: 30, MaxHdrs: 60, MultiNA: 20}).Raw
		} else if rr.Intn(6) == 0 {
			in = []byte("INVITE sip:a SIP/2.0\r\nVia: x\r\n" + []string{"P-Asserted-Identity: *\r\n", "P-Asserted-Identity: <sip:a>, *\r\n", "Contact: *\r\n"}[rr.Intn(3)] + "f: <sip:b>;tag=1\r\n\r\n")
		} else if rr.Intn(3) > 0 {
			in = gen.Msg(rr, gen.MsgOpts{MinHdrs: 1, MaxHdrs: 9, MultiNA: 60, DupParams: true,
				Kinds: []int{gen.HContact, gen.HContact, gen.HPAI, gen.HPAI, gen.HFrom, gen.HTo, gen.HCSeq, gen.HCallID, gen.HVia, gen.HExpires, gen.HOtherKind}}).Raw
		} else {
			in = gen.Mutate(rr, corpus[rr.Intn(len(corpus))], 3)
		}
		if !p.IsMsg {
			m := 0
			for m < len(in) && in[m] != '\n' {
				m++
			}
			if m < len(in) {
				in = in[m+1:]
			}
		}
		return in
	}
	return longValue(rr, p, cfg)
}

// RunC12 is the monitor for C12.
func RunC12(r *core.Run) {
	r.Rule = "case = a history on ONE parser object: op1 reset op2 reset ... (2..8 ops), op = (input, cut schedule, abandon point: complete / suspended mid-token / failed), reset in {Reset, Init, Reset+Init} (message objects also: Init with other arrays, built-in <-> caller supplied, header arrays up to 65 entries); every op after a reset is mirrored on a NEW object with arrays of the same capacity and every (verdict, offset) plus the definitive public view must agree; non-trivial = an op after at least one reset reached a definitive verdict and was compared; distinct by hash of the history"
	r.Assume = []string{"'same caller-supplied arrays' = a new object gets fresh zeroed arrays of the same capacity", "PPAIs.Init, PContacts.Init(vals), PHdrVals.Init(vals), URIParamsLst.Init, URIHdrsLst.Init are the init operations; other objects only have Reset"}
	corpus := loadCorpus()
	n := r.Pick(800000, 48000000)
	r.Stage("histories", n, func(w *core.Worker, idx int64) {
		rr := core.NewRand(r.Seed, 0xC12, 1, uint64(idx))
		p := Parsers[rr.Intn(len(Parsers)-1)] // not SkipQuoted (stateless)
		if rr.Intn(3) == 0 {
			p = ParserByName([]string{"ParseSIPMsg", "ParseHeaders+PHdrVals", "ParseAllContactValues", "ParseAllURIParams", "ParseAllURIHdrs", "ParseHdrLine+PHdrVals"}[rr.Intn(6)])
		}
		cfg := randCfg(rr, p)
		if rr.Intn(2) == 0 {
			cfg.ContactCap = []int{1, 2, 3}[rr.Intn(3)]
			cfg.ParamCap = []int{1, 2, 3}[rr.Intn(3)]
		}
		if rr.Intn(6) == 0 && (p.IsMsg || p.Group == "hdr" || p.Group == "hdrpv") {
			cfg.HdrCap = []int{33, 40, 64, 65}[rr.Intn(4)] // larger than any internal table
		}
		steps := rr.Range(2, 8)
		ops := make([]histOp, steps)
		h := core.HashStr(p.Name) ^ uint64(cfg.ContactCap+2)<<50 ^ uint64(cfg.HdrCap+2)<<40
		for i := range ops {
			in := histInput(rr, p, &cfg, corpus)
			ab := len(in)
			switch rr.Intn(3) {
			case 0:
				ab = rr.Intn(len(in) + 1)
			case 1:
				// abandon inside the most stateful region: somewhere in the last third
				ab = len(in) - rr.Intn(len(in)/3+1)
			}
			ops[i] = histOp{in: in, rk: rr.Intn(rkCount), abandon: ab, cuts: CutsRandom(nil, rr, 0, ab, rr.Range(0, 3))}
			if !p.IsMsg && (p.Group == "tok" || p.Group == "nameaddr") && rr.Intn(3) == 0 {
				// the list object receives further calls before it is reset
				var d []byte
				for k := rr.Range(1, 4); k > 0; k-- {
					var piece []byte
					switch rr.Intn(4) {
					case 0:
					case 1:
						piece = []byte([]string{" ", "\r\n", " \r\nX", "\t"}[rr.Intn(4)])
					default:
						piece = histInput(rr, p, &cfg, corpus)
						if rr.Intn(3) == 0 {
							piece = piece[:rr.Intn(len(piece)+1)]
						}
					}
					piece = bytes.ReplaceAll(piece, []byte{0}, []byte{1})
					if d != nil {
						d = append(d, 0)
					}
					d = append(d, piece...)
					if d == nil {
						d = []byte{}
					}
				}
				ops[i].dirty = d
			}
			if (p.Name == "ParseHeaders" || p.Name == "ParseHeaders+PHdrVals") && rr.Intn(4) == 0 {
				ops[i].dirty = rr.RawBytes(rr.Range(1, 4))
			}
			if p.IsMsg && rr.Intn(5) == 0 {
				d := histInput(rr, p, &cfg, corpus)
				ops[i].dirty = d[:rr.Intn(len(d)+1)]
				if rr.Bool() {
					// ... on an otherwise untouched object
					ops[i].cuts = []int{}
					ops[i].abandon = 0
				}
			}
			h = core.Mix(h ^ core.HashBytes(in) ^ uint64(ab))
		}
		if j := checkHistory(w, p, cfg, ops); j > 0 {
			w.Nontrivial(h)
			w.Inc("nontrivial_cases")
			w.Add("ops_judged_after_reset", int64(j))
		}
		if w.WantSample("histories/" + p.Group) {
			var hs []map[string]any
			for _, o := range ops {
				hs = append(hs, map[string]any{"input": core.Esc(o.in), "abandon_at": o.abandon, "then": []string{"Reset", "Init", "Reset+Init"}[o.rk]})
			}
			w.Sample("histories/"+p.Group, map[string]any{"parser": p.Name, "contact_cap": cfg.ContactCap, "hdr_cap": cfg.HdrCap, "param_cap": cfg.ParamCap, "history": hs})
		}
	})
	// message objects re-initialised with OTHER arrays between the steps (built-in <-> caller supplied)
	r.Stage("histories/init-with-other-arrays", r.Pick(100000, 12000000), func(w *core.Worker, idx int64) {
		rr := core.NewRand(r.Seed, 0xC12, 5, uint64(idx))
		p := Parsers[0]
		steps := rr.Range(2, 6)
		ops := make([]histOp, steps)
		cfgs := make([]Cfg, steps)
		h := uint64(idx)
		for i := range ops {
			cfgs[i] = Cfg{HdrCap: []int{-1, -1, 0, 2, 12, 40}[rr.Intn(6)], ContactCap: []int{-1, -1, 0, 1, 3, 8}[rr.Intn(6)], MsgFlags: uint8(rr.Intn(8))}
			c := cfgs[i]
			in := histInput(rr, p, &c, corpus)
			ab := len(in)
			if rr.Intn(3) == 0 {
				ab = rr.Intn(len(in) + 1)
			}
			ops[i] = histOp{in: in, rk: rkInit, abandon: ab, cuts: CutsRandom(nil, rr, 0, ab, rr.Range(0, 3))}
			h = core.Mix(h ^ core.HashBytes(in) ^ uint64(ab))
		}
		if j := checkHistoryC(w, p, cfgs[0], ops, cfgs); j > 0 {
			w.Nontrivial(h)
			w.Inc("nontrivial_cases")
			w.Add("ops_judged_after_reset", int64(j))
		}
	})
	// enumerated abandon points: input A dropped at EVERY prefix, reset, then B
	type pair struct {
		p    string
		a, b string
		cfg  Cfg
	}
	pairs := []pair{
		{"ParseSIPMsg", "INVITE sip:a SIP/2.0\r\nm: <sip:a>;expires=7, \"x\" <sip:b>;q=0.5\r\nm:<sip:c>\r\nf:<sip:f>;tag=1\r\nP-Asserted-Identity: <sip:p>, <tel:1>\r\nl:0\r\n\r\n",
			"REGISTER sip:r SIP/2.0\r\nContact: <sip:z>;expires=9\r\nTo: <sip:t>\r\nExpires: 5\r\nCSeq: 1 REGISTER\r\ni: q\r\n\r\n", Cfg{HdrCap: 3, ContactCap: 2}},
		{"ParseSIPMsg", "SIP/2.0 200 OK\r\nm: <sip:a>, <sip:b>, <sip:c>;expires=1\r\nCSeq: 3 BYE\r\n\r\n",
			"INVITE sip:a SIP/2.0\r\nm: <sip:q>;expires=77\r\nP-Asserted-Identity: \"n\" <sip:i>\r\n\r\n", Cfg{HdrCap: -1, ContactCap: 1}},
		{"ParseHeaders+PHdrVals", "m: <sip:a>;expires=7, <sip:b>\r\nP-Asserted-Identity: <sip:p>, <sip:q>, <sip:r>\r\nf: A <sip:f>;tag=1\r\nCSeq: 5 ACK\r\n\r\n",
			"m: <sip:c>;q=1\r\nt: sip:t;tag=2\r\nP-Asserted-Identity: <sip:z>\r\nl: 12\r\n\r\n", Cfg{HdrCap: 2, ContactCap: 2}},
		{"ParseHdrLine+PHdrVals", "m: <sip:a>;expires=7, <sip:b>;expires=99\r\nX", "m: <sip:c>\r\nX", Cfg{HdrCap: -1, ContactCap: 1}},
		{"ParseAllContactValues", " <sip:a>;expires=7 , \"x,y\" <sip:b>;q=0.1,sip:c;lr\r\nX", "<sip:d>, <sip:e>;expires=3\r\nX", Cfg{ContactCap: 2}},
		{"ParseAllContactValues", " <sip:a>;expires=7 , \"x,y\" <sip:b>;q=0.1,sip:c;lr\r\nX", "<sip:d>, <sip:e>;expires=3\r\nX", Cfg{ContactCap: 0}},
		{"ParseAllPAIValues", "<sip:a>, \"q\" <sip:b>;x=1, <sip:c>\r\nX", "<tel:1>\r\nX", DefCfg},
		{"ParseAllURIParams", "transport=tcp;lr;x = \"q;\" ;maddr=1.2.3.4?h=1", "user=phone;ttl=3?x", Cfg{ParamCap: 2, Flags: sipsp.POptTokURIParamF}},
		{"ParseAllURIParams", "transport=tcp;lr;x = \"q;\" ;maddr=1.2.3.4", "user=phone;ttl=3", Cfg{ParamCap: 8, Flags: sipsp.POptTokURIParamF | sipsp.POptInputEndF}},
		{"ParseAllURIHdrs", "to=a&subject=\"b&c\"&x&y=1 next", "h1=v1&h2 z", Cfg{ParamCap: 2, Flags: sipsp.POptTokSpTermF}},
		{"ParseAllURIHdrs", "to=a&subject=b&x&y=1", "h1=v1&h2", Cfg{ParamCap: 1, Flags: sipsp.POptTokURIHdrF | sipsp.POptInputEndF}},
		{"ParseFromVal", "\"A \\\" B\" <sip:a@b>;tag=x;q=0.3 ; expires = 40\r\nX", "sip:z;tag=9\r\nX", DefCfg},
		{"ParseOneContact", "<sip:a>;expires=5, <sip:b>;lr\r\nX", "*\r\nX", DefCfg},
		{"ParseCSeqVal", " 4711 \r\n INVITE\r\nX", "12 ACK\r\nX", DefCfg},
		{"ParseCallIDVal", " abc@1.2.3.4 \r\nX", "z\r\nX", DefCfg},
		{"ParseCLenVal", " 16777216 \r\nX", "5\r\nX", DefCfg},
		{"ParseExpiresVal", " 4294967295\r\nX", "0\r\nX", DefCfg},
		{"ParseTokenParam", "a = \"b\\\"c\" ; d=e;f , g", "h=1,", Cfg{Flags: sipsp.POptTokCommaTermF}},
		{"ParseFLine", "SIP/2.0 486 Busy Here\r\nXXXXXXXXXXXXXX", "INVITE sip:a SIP/2.0\r\nXXXXXXXXXXXXXX", DefCfg},
		{"ParseFLine", "OPTIONS sip:a@b SIP/2.0\r\nXXXXXXXXXXXXXX", "SIP/2.0 000 \r\nXXXXXXXXXXXXXX", DefCfg},
		{"ParseHeaders", "a: b\r\nc : d e\r\n f\r\nFrom: x\r\n\r\n", "To: y\r\nz:\r\n\r\n", Cfg{HdrCap: 2}},
		{"ParseHdrLine", "Via: a b\r\n c\r\nX", "f: q\r\nX", DefCfg},
	}
	var total int64
	offs := make([]int64, len(pairs)+1)
	for i, p := range pairs {
		offs[i] = total
		total += int64(len(p.a)+1) * rkCount * 2
	}
	offs[len(pairs)] = total
	st := r.Stage("enum-abandon-points", total, func(w *core.Worker, idx int64) {
		pi := 0
		for idx >= offs[pi+1] {
			pi++
		}
		x := idx - offs[pi]
		pp := &pairs[pi]
		swap := x%2 == 1
		x /= 2
		rk := int(x % rkCount)
		ab := int(x / rkCount)
		a, b := pp.a, pp.b
		if swap {
			a, b = b, a
			if ab > len(a) {
				ab = len(a)
			}
		}
		p := ParserByName(pp.p)
		ops := []histOp{
			{in: []byte(a), rk: rk, abandon: ab, cuts: []int{ab}},
			{in: []byte(b), rk: rk, abandon: len(b), cuts: []int{len(b)}},
			{in: []byte(a), rk: rk, abandon: len(a), cuts: CutsEveryPrefix(nil, 0, len(a))},
		}
		if j := checkHistory(w, p, pp.cfg, ops); j > 0 {
			w.NontrivialEnum()
			w.Inc("nontrivial_cases")
			w.Add("ops_judged_after_reset", int64(j))
		}
	})
	st.Exhaustive = true
	st.Space = fmt.Sprintf("%d (parser, input A, input B, capacities) rows x every abandon point 0..len(A) x {Reset, Init, Reset+Init} x both orders; after the reset B is parsed one-shot, reset again, and A is parsed with every-prefix resumption", len(pairs))
	// parsed URI: Reset makes it new
	r.Stage("uri-reset", r.Pick(200000, 12000000), func(w *core.Worker, idx int64) {
		rr := core.NewRand(r.Seed, 0xC12, 3, uint64(idx))
		a := []byte(gen.URI(rr).String())
		b := []byte(gen.URI(rr).String())
		if rr.Intn(3) == 0 {
			a = gen.Mutate(rr, a, 2)
		}
		if rr.Intn(3) == 0 {
			b = gen.Mutate(rr, b, 2)
		}
		var u, nw sipsp.PsipURI
		pan, _, _ := core.Guard(func() { sipsp.ParseURI(a, &u) })
		if pan {
			return
		}
		u.Reset()
		var eu, en sipsp.ErrorURI
		var ou, on int
		pan, _, _ = core.Guard(func() { eu, ou = sipsp.ParseURI(b, &u); en, on = sipsp.ParseURI(b, &nw) })
		w.Eval(1)
		if pan {
			return
		}
		if eu != en || ou != on || u != nw {
			w.Fail("uri-after-reset", func() *core.Violation {
				return core.V(fmt.Sprintf("ParseURI(%q) on a PsipURI used for %q and Reset() gives (%v,%d,%+v), a new one gives (%v,%d,%+v)", b, a, eu, ou, u, en, on, nw), b, nil)
			})
		}
		w.Nontrivial(core.HashBytes(a) ^ core.HashBytes(b)<<1)
		w.Inc("nontrivial_cases")
	})
	r.Require("C12 non-trivial histories", r.Counter("nontrivial_cases"), 5000)
}
