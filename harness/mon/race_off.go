//go:build !race

package mon

const raceEnabled = false
