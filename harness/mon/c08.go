package mon

import (
	"bytes"
	"fmt"
	"strings"

	"github.com/intuitivelabs/sipsp"

	"verif/harness/core"
	"verif/harness/gen"
	"verif/harness/ref"
)

var eols = []string{"\r\n", "\n", "\r"}

const flPad = "Xx: y\r\nXXXXXXXXX" // what follows the first line (>= 14 bytes look-ahead)

var (
	flOldReply   = []byte("SIP/2.0 486 Busy Here\r\nVia: x\r\n\r\n")
	flOldRequest = []byte("SUBSCRIBE sip:old@example.net;x=y SIP/2.0\r\nVia: x\r\n\r\n")
)

// usedBefore gives the PFLine a history (chosen by the input's hash): it has parsed a reply, a
// request or half a line before and was Reset(); the statement holds whatever the object did before.
func usedBefore(fl *sipsp.PFLine, in []byte) {
	switch core.HashBytes(in) % 5 {
	case 0:
		sipsp.ParseFLine(flOldReply, 0, fl)
		fl.Reset()
	case 1:
		sipsp.ParseFLine(flOldRequest, 0, fl)
		fl.Reset()
	case 2:
		sipsp.ParseFLine(flOldReply[:16], 0, fl)
		fl.Reset()
	}
}

func parseFL(in []byte) (fl sipsp.PFLine, n int, e sipsp.ErrorHdr, pan string) {
	p, msg, _ := core.Guard(func() { usedBefore(&fl, in); n, e = sipsp.ParseFLine(in, 0, &fl) })
	if p {
		pan = msg
	}
	return
}

// parseFLChunked delivers the line byte by byte (every prefix), resuming one object.
func parseFLChunked(in []byte) (fl sipsp.PFLine, n int, e sipsp.ErrorHdr, pan string) {
	p, msg, _ := core.Guard(func() {
		usedBefore(&fl, in)
		offs := 0
		step := 1
		if len(in) > 400 {
			step = len(in)/61 + 1 // long lines: ~60 prefixes instead of every one
		}
		for c := 1; c <= len(in); c += step {
			if c+step > len(in) {
				c = len(in)
			}
			n, e = sipsp.ParseFLine(isoCopy(in[:c]), offs, &fl)
			if e != sipsp.ErrHdrMoreBytes {
				return
			}
			offs = n
		}
	})
	if p {
		pan = msg
	}
	return
}

// checkRequestLine: method SP uri SP version EOL must come back as exactly that.
func checkRequestLine(w *core.Worker, meth, uri, ver, eol string) {
	line := meth + " " + uri + " " + ver + eol
	in := []byte(line + flPad)
	for mode := 0; mode < 2; mode++ {
		if !checkRequestLineMode(w, meth, uri, ver, line, in, mode == 1) {
			return
		}
	}
}

func checkRequestLineMode(w *core.Worker, meth, uri, ver, line string, in []byte, chunked bool) bool {
	var fl sipsp.PFLine
	var n int
	var e sipsp.ErrorHdr
	var pan string
	if chunked {
		fl, n, e, pan = parseFLChunked(in)
	} else {
		fl, n, e, pan = parseFL(in)
	}
	w.Eval(1)
	okAll := true
	fail := func(what string) {
		okAll = false
		w.Fail("request-line", func() *core.Violation {
			return core.V(fmt.Sprintf("request line %q (delivered byte by byte: %v): %s (verdict %s, offs %d, parsed %+v)", line, chunked, what, errName(e), n, fl), in, nil)
		})
	}
	if pan != "" {
		fail("panic " + pan)
		return false
	}
	if e != sipsp.ErrHdrOk {
		fail("well-formed request line not accepted")
		return false
	}
	wantNo := ref.MethodNo([]byte(meth))
	switch {
	case n != len(line):
		fail(fmt.Sprintf("offset %d, expected %d (first byte after the line terminator)", n, len(line)))
	case !fl.Request():
		fail("not reported as a request")
	case string(fl.Method.Get(in)) != meth || string(fl.URI.Get(in)) != uri || string(fl.Version.Get(in)) != ver:
		fail(fmt.Sprintf("tokens reported as %q %q %q", fl.Method.Get(in), fl.URI.Get(in), fl.Version.Get(in)))
	case int(fl.MethodNo) != wantNo:
		fail(fmt.Sprintf("MethodNo %d, the method table says %d", fl.MethodNo, wantNo))
	} // (what the status fields of a request and the state predicates hold is not part of the statement)
	// long method tokens: two pieces, cut at every position from byte 14 to the end of the token
	// (the first call waits for 14 bytes, so only such cuts suspend inside the token)
	if !chunked && len(meth) > 14 && okAll {
		step := 1
		if len(meth) > 80 {
			step = len(meth)/40 + 1 // very long tokens: ~40 cut positions
		}
		for cut := 14; cut <= len(meth); cut += step {
			var f2 sipsp.PFLine
			var n2 int
			var e2 sipsp.ErrorHdr
			p2, _, _ := core.Guard(func() {
				n2, e2 = sipsp.ParseFLine(isoCopy(in[:cut]), 0, &f2)
				if e2 == sipsp.ErrHdrMoreBytes {
					n2, e2 = sipsp.ParseFLine(in, n2, &f2)
				}
			})
			w.Eval(1)
			if p2 || e2 != sipsp.ErrHdrOk || n2 != len(line) || int(f2.MethodNo) != wantNo || string(f2.Method.Get(in)) != meth {
				fl, n, e = f2, n2, e2
				fail(fmt.Sprintf("delivered in two pieces (first %d bytes, then everything): method %q number %d, expected %q number %d", cut, f2.Method.Get(in), f2.MethodNo, meth, wantNo))
				break
			}
		}
	}
	// the same through the message parser: PSIPMsg.Method()
	var m sipsp.PSIPMsg
	full := []byte(line + "CSeq: 1 BYE\r\n\r\n")
	var me sipsp.ErrorHdr
	core.Guard(func() { m.Init(nil, nil, nil); _, me = sipsp.ParseSIPMsg(full, 0, &m, sipsp.SIPMsgSkipBodyF) })
	w.Eval(1)
	if me == sipsp.ErrHdrOk && (int(m.Method()) != wantNo || !m.Request()) {
		fail(fmt.Sprintf("PSIPMsg.Method()=%d Request()=%v, expected %d", m.Method(), m.Request(), wantNo))
	}
	return okAll
}

func checkStatusLine(w *core.Worker, ver string, code int, reason, eol string) {
	cs := fmt.Sprintf("%03d", code)
	line := ver + " " + cs + " " + reason + eol
	in := []byte(line + flPad)
	fl, n, e, pan := parseFL(in)
	if code%2 == 1 {
		fl, n, e, pan = parseFLChunked(in)
	}
	w.Eval(1)
	fail := func(what, fnd string) {
		w.Fail("status-line", func() *core.Violation {
			v := core.V(fmt.Sprintf("status line %q: %s (verdict %s, offs %d, parsed %+v)", line, what, errName(e), n, fl), in, nil)
			v.Finding = fnd
			return v
		})
	}
	if pan != "" {
		fail("panic "+pan, "")
		return
	}
	if e != sipsp.ErrHdrOk {
		fail("well-formed status line not accepted", "")
		return
	}
	switch {
	case n != len(line):
		fail(fmt.Sprintf("offset %d, expected %d", n, len(line)), "")
	case fl.Request():
		f := ""
		if code == 0 {
			f = "D13"
		}
		fail("reported as a request", f)
	case int(fl.Status) != code || string(fl.StatusCode.Get(in)) != cs:
		fail(fmt.Sprintf("Status %d StatusCode %q", fl.Status, fl.StatusCode.Get(in)), "")
	case string(fl.Reason.Get(in)) != reason:
		fail(fmt.Sprintf("Reason %q, expected %q", fl.Reason.Get(in), reason), "")
	case string(fl.Version.Get(in)) != ver:
		fail(fmt.Sprintf("Version %q", fl.Version.Get(in)), "")
	} // (what the request fields of a reply hold is not part of the statement)
	// PSIPMsg.Method() of a reply comes from CSeq
	var m sipsp.PSIPMsg
	full := []byte(line + "CSeq: 1 BYE\r\n\r\n")
	var me sipsp.ErrorHdr
	core.Guard(func() { m.Init(nil, nil, nil); _, me = sipsp.ParseSIPMsg(full, 0, &m, sipsp.SIPMsgSkipBodyF) })
	w.Eval(1)
	if me == sipsp.ErrHdrOk && (m.Request() || m.Method() != sipsp.MBye) {
		f := ""
		if code == 0 {
			f = "D13"
		}
		fail(fmt.Sprintf("PSIPMsg: Request()=%v Method()=%d for a reply with CSeq method BYE", m.Request(), m.Method()), f)
	}
}

// checkNearMiss: the line violates the single-space grammar: it must not be accepted.
func checkNearMiss(w *core.Worker, line string, why string) {
	in := []byte(line + flPad)
	fl, n, e, pan := parseFL(in)
	w.Eval(1)
	if pan != "" {
		return // C04
	}
	if e == sipsp.ErrHdrOk {
		w.Fail("near-miss-accepted", func() *core.Violation {
			return core.V(fmt.Sprintf("first line %q (%s) was accepted: offs %d, parsed %+v tokens %q %q %q status %q reason %q", line, why, n, fl,
				fl.Method.Get(in), fl.URI.Get(in), fl.Version.Get(in), fl.StatusCode.Get(in), fl.Reason.Get(in)), in, nil)
		})
	}
}

var tokAlpha = []byte("abcdefghijklmnopqrstuvwxyzABCDEFGHIJKLMNOPQRSTUVWXYZ0123456789-._!%*+~':@;/?&=[]\"<>,(){}\\^|`$#\x80\xff\x01")

// RunC08 is the monitor for C08.
func RunC08(r *core.Run) {
	r.Rule = "case = one generated first line followed by >= 14 further bytes; request lines 'method SP uri SP version EOL' (methods: the 14 table names, all their one-edit neighbours and case variants, arbitrary tokens; URI / version arbitrary tokens; EOL in CRLF, LF, CR) delivered whole AND byte by byte (one resumed object), must be accepted as a request with exactly the three tokens, MethodNo per the independent method table, offset after the terminator; status lines 'SIP/2.0 SP ddd SP reason EOL' (every code 000-999, version in every letter case, reasons incl. empty / spaces / tabs / 8-bit) must be accepted as a reply with Status = digits, Reason = text without terminator; near-miss lines (double space, tab separators, missing token, trailing space, 2/4-digit or non-digit status, missing space after the code) must not be accepted; distinct by construction (enumerated) / hash"
	r.Assume = []string{"'any token' = any bytes except SP HT CR LF; a request whose first 8 bytes are 'SIP/2.0 ' in any case is by definition a status line and not generated as a request"}
	// A: all status codes x versions x reasons x eols
	vers := []string{"SIP/2.0", "sip/2.0", "Sip/2.0", "sIP/2.0", "SIp/2.0", "siP/2.0"}
	reasons := []string{"OK", "", "Busy Here", " ", "  x ", "Trying\tagain", "a", "Not Found: \"x\" <y>", "\x80\xff", "200 OK", "SIP/2.0 200 OK", ";:,", "x "}
	st := r.Stage("status-lines", int64(1000*len(vers)*len(reasons)*3), func(w *core.Worker, idx int64) {
		code := int(idx % 1000)
		x := idx / 1000
		v := vers[x%int64(len(vers))]
		x /= int64(len(vers))
		rs := reasons[x%int64(len(reasons))]
		x /= int64(len(reasons))
		checkStatusLine(w, v, code, rs, eols[x])
		w.NontrivialEnum()
		if idx%90001 == 17 {
			w.Sample("status-lines", fmt.Sprintf("%s %03d %s%q", v, code, rs, eols[x]))
		}
	})
	st.Exhaustive = true
	st.Space = fmt.Sprintf("codes 000..999 x versions %q x reasons %q x line ends CRLF/LF/CR", vers, reasons)
	// B: request lines: method families
	var meths [][]byte
	for _, m := range ref.MethodList {
		b := []byte(m)
		meths = append(meths, b)
		meths = append(meths, bytes.ToLower(b), append([]byte{b[0] | 0x20}, b[1:]...), append(append([]byte(nil), b[:len(b)-1]...), b[len(b)-1]|0x20))
		for k := int64(0); k < oneEditCount(len(b)); k++ {
			e := oneEdit(b, k)
			if len(e) > 0 && bytes.IndexAny(e, " \t\r\n") < 0 {
				meths = append(meths, e)
			}
		}
	}
	// method tokens that merely START with the version string are ordinary (unknown) methods
	for _, v := range []string{"SIP/2.0", "sip/2.0", "Sip/2.0"} {
		for _, suf := range []string{"x", "0", "-EXT", "/UDP", "SIP/2.0", ".", "\x80"} {
			meths = append(meths, []byte(v+suf))
		}
	}
	meths = append(meths, []byte("SIP/2."), []byte("SIP/2.1"), []byte("SIP/3.0"), []byte("XSIP/2.0"), []byte("SIP/2"))
	uris := []string{"sip:a@b", "x", "sip:bob@biloxi.com;transport=tcp?h=v", "*", "SIP/2.0", "200", "<sip:a>", "\x80", "a:b:c"}
	rvers := []string{"SIP/2.0", "sip/2.0", "SIP/3.0", "x", "HTTP/1.1", "2"}
	st = r.Stage("request-lines/method-families", int64(len(meths))*3, func(w *core.Worker, idx int64) {
		m := meths[idx/3]
		eol := eols[idx%3]
		u := uris[idx%int64(len(uris))]
		v := rvers[(idx/7)%int64(len(rvers))]
		if len(m) >= 7 && ref.Lower(m[:7]) == "sip/2.0" && len(m) == 7 {
			return
		}
		checkRequestLine(w, string(m), u, v, eol)
		w.NontrivialEnum()
		if idx%30011 == 5 {
			w.Sample("request-lines", fmt.Sprintf("%q %s %s %q", m, u, v, eol))
		}
	})
	st.Exhaustive = true
	st.Space = "the 14 method names, their lower-case / first-letter / last-letter case variants and every one-edit neighbour (substitute/insert any byte value, delete, transpose) that is still a token, x 3 line ends, with rotating URI and version tokens"
	// B2: long tokens: a method name followed by a run whose length sits at 8-/16-bit boundaries;
	// long URI and version tokens
	lens := []int{29, 60, 63, 64, 65, 127, 128, 250, 255, 256, 257, 258, 511, 512, 513, 1024, 4096, 32768, 65000}
	st = r.Stage("request-lines/long-tokens", int64(len(ref.MethodList)*len(lens)*3), func(w *core.Worker, idx int64) {
		k := lens[idx%int64(len(lens))]
		m := ref.MethodList[(idx/int64(len(lens)))%int64(len(ref.MethodList))]
		which := idx / int64(len(lens)*len(ref.MethodList))
		pad := strings.Repeat(string("Xx-.!%*_+`'~9"[idx%13]), k)
		u, v := "sip:a@b", "SIP/2.0"
		switch which {
		case 0:
			m += pad // "INVITEXXXX...": an unknown method
		case 1:
			u += pad
		case 2:
			v += pad
		}
		checkRequestLine(w, m, u, v, eols[idx%3])
		w.NontrivialEnum()
	})
	st.Exhaustive = true
	st.Space = "every method name x a method / URI / version token stretched by 29..65000 bytes (lengths around 64, 128, 256, 512 and above)"
	// C: random tokens
	r.Stage("request-lines/random-tokens", r.Pick(1500000, 200000000), func(w *core.Worker, idx int64) {
		rr := core.NewRand(r.Seed, 0xC08, 3, uint64(idx))
		m := string(rr.Bytes(rr.Range(1, 30), tokAlpha))
		switch rr.Intn(6) {
		case 0, 1:
			m = ref.MethodList[rr.Intn(len(ref.MethodList))]
		case 2:
			// an unknown method that ends in / starts with a known one, longer than the 14 bytes
			// the first call waits for (the byte-by-byte delivery then suspends inside it)
			k := ref.MethodList[rr.Intn(len(ref.MethodList))]
			x := string(rr.Bytes(rr.Range(8, 24), tokAlpha))
			if rr.Bool() {
				m = x + k
			} else {
				m = k + x
			}
		}
		u := string(rr.Bytes(rr.Range(1, 30), tokAlpha))
		v := string(rr.Bytes(rr.Range(1, 9), tokAlpha))
		if rr.Intn(2) == 0 {
			v = "SIP/2.0"
		}
		if len(m) == 7 && ref.Lower([]byte(m)) == "sip/2.0" {
			m += "x"
		}
		checkRequestLine(w, m, u, v, eols[rr.Intn(3)])
		w.Nontrivial(core.HashStr(m + " " + u + " " + v))
	})
	// D: first lines of generated messages (as the message generator writes them)
	r.Stage("generated-message-first-lines", r.Pick(500000, 80000000), func(w *core.Worker, idx int64) {
		rr := core.NewRand(r.Seed, 0xC08, 4, uint64(idx))
		m := gen.Msg(rr, gen.MsgOpts{MinHdrs: 1, MaxHdrs: 2})
		line := m.Raw[:m.FLEnd]
		eol := line[len(line)-1:]
		if len(line) >= 2 && line[len(line)-2] == '\r' && line[len(line)-1] == '\n' {
			eol = line[len(line)-2:]
		}
		body := line[:len(line)-len(eol)]
		if m.Request {
			checkRequestLine(w, string(m.Raw[m.Method.S:m.Method.E]), string(m.Raw[m.URI.S:m.URI.E]), string(m.Raw[m.Version.S:m.Version.E]), string(eol))
		} else {
			checkStatusLine(w, string(m.Raw[m.Version.S:m.Version.E]), m.Status, string(m.Raw[m.Reason.S:m.Reason.E]), string(eol))
		}
		_ = body
		w.Nontrivial(core.HashBytes(line))
	})
	// D2: every single-byte substitution of a few base lines, judged by a reference grammar
	bases := []string{"SIP/2.0 200 OK", "sip/2.0 404 Not Found", "INVITE sip:a@b SIP/2.0", "ACK x SIP/2.0", "Sip/2.0 000 ",
		// long tokens: a scanner that changes its method after 8, 16, 48, 64 ... bytes is judged at every position
		"INVITE sip:" + strings.Repeat("u", 70) + "@" + strings.Repeat("h", 70) + ";transport=tcp SIP/2.0",
		strings.Repeat("M", 40) + " sip:a@b " + strings.Repeat("V", 40),
		"SIP/2.0 486 " + strings.Repeat("Busy Here ", 9)}
	var boffs []int64
	var btot int64
	for _, bl := range bases {
		boffs = append(boffs, btot)
		btot += int64(len(bl)) * 256 * 3
	}
	boffs = append(boffs, btot)
	st = r.Stage("single-byte-substitutions", btot, func(w *core.Worker, idx int64) {
		bi := 0
		for idx >= boffs[bi+1] {
			bi++
		}
		x := idx - boffs[bi]
		eol := eols[x%3]
		x /= 3
		v := byte(x % 256)
		p := int(x / 256)
		line := []byte(bases[bi])
		line[p] = v
		in := append(append(append([]byte(nil), line...), eol...), flPad...)
		want := ref.FirstLine(in)
		for mode := 0; mode < 2; mode++ {
			var fl sipsp.PFLine
			var n int
			var e sipsp.ErrorHdr
			var pan string
			if mode == 0 {
				fl, n, e, pan = parseFL(in)
			} else {
				fl, n, e, pan = parseFLChunked(in)
			}
			w.Eval(1)
			if pan != "" {
				return
			}
			bad := ""
			switch want.Kind {
			case 0:
				if e == sipsp.ErrHdrOk {
					bad = "accepted although the grammar rejects it"
				}
			case 1:
				if e != sipsp.ErrHdrOk || !fl.Request() || n != want.End || !bytes.Equal(fl.Method.Get(in), want.Method) || !bytes.Equal(fl.URI.Get(in), want.URI) ||
					!bytes.Equal(fl.Version.Get(in), want.Version) || int(fl.MethodNo) != ref.MethodNo(want.Method) {
					bad = fmt.Sprintf("by the grammar it is the request %q %q %q ending at %d", want.Method, want.URI, want.Version, want.End)
				}
			case 2:
				code := int(want.Code[0]-'0')*100 + int(want.Code[1]-'0')*10 + int(want.Code[2]-'0')
				if e != sipsp.ErrHdrOk || fl.Request() || n != want.End || int(fl.Status) != code || !bytes.Equal(fl.Reason.Get(in), want.Reason) || !bytes.Equal(fl.Version.Get(in), want.Version) {
					bad = fmt.Sprintf("by the grammar it is a reply with status %s, reason %q ending at %d", want.Code, want.Reason, want.End)
				}
			}
			if bad != "" {
				w.Fail("substitution", func() *core.Violation {
					return core.V(fmt.Sprintf("first line %q (byte %d of %q replaced by %#02x, delivered byte by byte: %v): %s; got verdict %s offs %d request=%v tokens %q %q %q status %d reason %q",
						in[:len(line)+len(eol)], p, bases[bi], v, mode == 1, bad, errName(e), n, fl.Request(), fl.Method.Get(in), fl.URI.Get(in), fl.Version.Get(in), fl.Status, fl.Reason.Get(in)), in, nil)
				})
				return
			}
		}
		w.NontrivialEnum()
	})
	st.Exhaustive = true
	st.Space = fmt.Sprintf("every byte value at every position of each of %q, x 3 line ends, judged by an independent first-line grammar (ref.FirstLine), delivered whole and byte by byte", bases)
	// E: near misses
	type nm struct{ line, why string }
	var misses []nm
	for _, eol := range eols {
		for _, m := range []string{"INVITE", "x", "REGISTER"} {
			misses = append(misses,
				nm{m + "  sip:a SIP/2.0" + eol, "double space after the method"},
				nm{m + " sip:a  SIP/2.0" + eol, "double space after the URI"},
				nm{m + "\tsip:a SIP/2.0" + eol, "tab after the method"},
				nm{m + " sip:a\tSIP/2.0" + eol, "tab after the URI"},
				nm{m + " sip:a SIP/2.0 " + eol, "trailing space"},
				nm{m + " sip:a SIP/2.0\t" + eol, "trailing tab"},
				nm{m + " sip:a" + eol, "missing version"},
				nm{m + " sip:a " + eol, "empty version"},
				nm{m + eol, "only one token"},
				nm{" " + m + " sip:a SIP/2.0" + eol, "leading space"},
				nm{m + " sip:a SIP/2.0 x" + eol, "four tokens"},
			)
		}
		for _, v := range []string{"SIP/2.0", "sip/2.0"} {
			misses = append(misses,
				nm{v + " 20 OK" + eol, "2-digit status"},
				nm{v + " 2000 OK" + eol, "4-digit status"},
				nm{v + " 2x0 OK" + eol, "non-digit status"},
				nm{v + " x00 OK" + eol, "non-digit status"},
				nm{v + " 20x OK" + eol, "non-digit status"},
				nm{v + "  200 OK" + eol, "double space before the status"},
				nm{v + " 200\tOK" + eol, "tab after the status"},
				nm{v + " 200" + eol, "no space after the status"},
				nm{v + " -20 OK" + eol, "sign in status"},
				nm{v + " +20 OK" + eol, "sign in status"},
				nm{v + " 200OK" + eol, "no space after the status"},
			)
		}
	}
	st = r.Stage("near-misses", int64(len(misses)), func(w *core.Worker, idx int64) {
		checkNearMiss(w, misses[idx].line, misses[idx].why)
		w.NontrivialEnum()
		if idx%40 == 0 {
			w.Sample("near-misses", misses[idx].line)
		}
	})
	st.Exhaustive = true
	st.Space = fmt.Sprintf("%d hand-enumerated grammar violations x 3 line ends", len(misses)/3)
	// F: random near misses: take a valid line and break exactly one separator
	r.Stage("near-misses/random", r.Pick(500000, 80000000), func(w *core.Worker, idx int64) {
		rr := core.NewRand(r.Seed, 0xC08, 6, uint64(idx))
		tok := func(n int) string { return string(rr.Bytes(rr.Range(1, n), tokAlpha)) }
		m, u, v := tok(8), tok(12), tok(8)
		if len(m) >= 7 {
			m = "M" + m
		}
		seps := [][2]string{{" ", " "}, {" ", " "}}
		bad := []string{"  ", "\t", " \t", "\t "}
		k := rr.Intn(3)
		eol := eols[rr.Intn(3)]
		var line string
		switch k {
		case 0:
			line = m + bad[rr.Intn(len(bad))] + u + seps[1][0] + v + eol
		case 1:
			line = m + " " + u + bad[rr.Intn(len(bad))] + v + eol
		default:
			line = m + " " + u + " " + v + []string{" ", "\t", "  "}[rr.Intn(3)] + eol
		}
		checkNearMiss(w, line, "one broken separator")
		w.Nontrivial(core.HashStr(line))
	})
}
