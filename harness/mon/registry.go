package mon

import "verif/harness/core"

// Monitors maps property ids to their monitor.
var Monitors = map[string]func(*core.Run){
	"C01": RunC01,
	"C02": RunC02,
	"C03": RunC03,
	"C04": RunC04,
	"C05": RunC05,
	"C06": RunC06,
	"C07": RunC07,
	"C08": RunC08,
	"C09": RunC09,
	"C10": RunC10,
	"C14": RunC14,
	"C15": RunC15,
	"C16": RunC16,
	"C17": RunC17,
	"C18": RunC18,
	"C19": RunC19,
	"C20": RunC20,
	"C11": RunC11,
	"C12": RunC12,
	"C13": RunC13,
}
