package mon

import (
	"fmt"
	"reflect"
	"strings"

	"github.com/intuitivelabs/sipsp"

	"verif/harness/ref"
	"verif/harness/view"
)

// SelfTest checks the harness' own assumptions before any monitor runs:
//   - the reference tables use the library's numbering (constants only, no behaviour),
//   - view completeness: flipping ANY exported field of a viewed type changes the
//     public view (so a field added upstream cannot silently go uncompared),
//   - the reference oracles on a few literal facts.
//
// An error makes every run inconclusive ("harness out of date"), never green.
func SelfTest() error {
	consts := []struct {
		name string
		lib  int
		ref  int
	}{
		{"HdrFrom", int(sipsp.HdrFrom), ref.HdrFrom}, {"HdrTo", int(sipsp.HdrTo), ref.HdrTo}, {"HdrCallID", int(sipsp.HdrCallID), ref.HdrCallID},
		{"HdrCSeq", int(sipsp.HdrCSeq), ref.HdrCSeq}, {"HdrVia", int(sipsp.HdrVia), ref.HdrVia}, {"HdrMaxFwd", int(sipsp.HdrMaxFwd), ref.HdrMaxFwd},
		{"HdrCLen", int(sipsp.HdrCLen), ref.HdrCLen}, {"HdrContact", int(sipsp.HdrContact), ref.HdrContact}, {"HdrExpires", int(sipsp.HdrExpires), ref.HdrExpires},
		{"HdrUA", int(sipsp.HdrUA), ref.HdrUA}, {"HdrRecordRoute", int(sipsp.HdrRecordRoute), ref.HdrRecordRoute}, {"HdrRoute", int(sipsp.HdrRoute), ref.HdrRoute},
		{"HdrPAI", int(sipsp.HdrPAI), ref.HdrPAI}, {"HdrOther", int(sipsp.HdrOther), ref.HdrOther},
		{"MRegister", int(sipsp.MRegister), ref.MRegister}, {"MInvite", int(sipsp.MInvite), ref.MInvite}, {"MAck", int(sipsp.MAck), ref.MAck},
		{"MBye", int(sipsp.MBye), ref.MBye}, {"MPrack", int(sipsp.MPrack), ref.MPrack}, {"MCancel", int(sipsp.MCancel), ref.MCancel},
		{"MOptions", int(sipsp.MOptions), ref.MOptions}, {"MSubscribe", int(sipsp.MSubscribe), ref.MSubscribe}, {"MNotify", int(sipsp.MNotify), ref.MNotify},
		{"MUpdate", int(sipsp.MUpdate), ref.MUpdate}, {"MInfo", int(sipsp.MInfo), ref.MInfo}, {"MRefer", int(sipsp.MRefer), ref.MRefer},
		{"MPublish", int(sipsp.MPublish), ref.MPublish}, {"MMessage", int(sipsp.MMessage), ref.MMessage}, {"MOther", int(sipsp.MOther), ref.MOther},
	}
	for _, c := range consts {
		if c.lib != c.ref {
			return fmt.Errorf("constant %s: library %d, harness table %d", c.name, c.lib, c.ref)
		}
	}
	// reference oracle facts
	if e := ref.IP4EndsAt([]byte("1.2.3.2540"), 0); len(e) != 3 || e[2] != 9 {
		return fmt.Errorf("IPv4 reference matcher: 1.2.3.2540 -> %v", e)
	}
	if len(ref.IP4EndsAt([]byte("256.1.1.1"), 0)) != 0 || !ref.ContainsIP4([]byte("x256.1.1.1")) || ref.ContainsIP4([]byte("1.2.3.")) {
		return fmt.Errorf("IPv4 reference matcher: boundary facts wrong")
	}
	if ref.HdrType([]byte("cOnTaCt")) != ref.HdrContact || ref.HdrType([]byte("contact ")) != ref.HdrOther || ref.MethodNo([]byte("invite")) != ref.MOther {
		return fmt.Errorf("reference tables: classification facts wrong")
	}
	if ls, end, ok := ref.HeaderLines([]byte("a: b\r\n c\rd:e\n\r\nX"), 0); !ok || len(ls) != 2 || end != 15 || ls[0].E != 9 || ls[1].E != 13 {
		return fmt.Errorf("reference line splitter: %v %d %v", ls, end, ok)
	}
	if s := ref.SplitURI([]byte("u;x:p@[::1]:5;a?b"), 4); string(s.User) != "u;x" || string(s.Pass) != "p" || string(s.Host) != "[::1]" || string(s.Port) != "5" || string(s.Params) != "a" || string(s.Headers) != "b" {
		return fmt.Errorf("reference URI splitter: %+v", s)
	}
	return viewCompleteness()
}

type viewRoot struct {
	name string
	mk   func() (ptr interface{}, walk func(v *view.Vec))
}

func viewCompleteness() error {
	roots := []viewRoot{
		{"PSIPMsg", func() (interface{}, func(*view.Vec)) {
			m := &sipsp.PSIPMsg{}
			m.Init(nil, make([]sipsp.Hdr, 1), make([]sipsp.PFromBody, 1))
			// a completely parsed message (Buf is part of the view only then)
			sipsp.ParseSIPMsg([]byte("INVITE a SIP/2.0\r\nm:<b>\r\n\r\n"), 0, m, sipsp.SIPMsgSkipBodyF)
			m.HL.N = 1
			m.PV.Contacts.N = 1
			m.PV.PAIs.N = 1
			m.Buf = []byte{0, 0, 0}
			m.RawMsg = m.Buf[1:]
			return m, func(v *view.Vec) { view.Msg(v, m, view.MsgOpt{}) }
		}},
		{"PTokParam", func() (interface{}, func(*view.Vec)) {
			p := &sipsp.PTokParam{}
			return p, func(v *view.Vec) { view.TokParam(v, p) }
		}},
		{"URIParamsLst", func() (interface{}, func(*view.Vec)) {
			l := &sipsp.URIParamsLst{}
			l.Init(make([]sipsp.URIParam, 1))
			l.N = 1
			return l, func(v *view.Vec) { view.URIParams(v, l, view.Opt{}) }
		}},
		{"URIHdrsLst", func() (interface{}, func(*view.Vec)) {
			l := &sipsp.URIHdrsLst{}
			l.Init(make([]sipsp.URIHdr, 1))
			l.N = 1
			return l, func(v *view.Vec) { view.URIHdrs(v, l, view.Opt{}) }
		}},
		{"PsipURI", func() (interface{}, func(*view.Vec)) {
			u := &sipsp.PsipURI{}
			return u, func(v *view.Vec) { view.URI(v, u) }
		}},
		{"PContacts(stand-alone)", func() (interface{}, func(*view.Vec)) {
			c := &sipsp.PContacts{}
			c.Init(make([]sipsp.PFromBody, 1))
			c.N = 1
			return c, func(v *view.Vec) { view.Contacts(v, c, view.Opt{}) }
		}},
		{"HdrLst(stand-alone)", func() (interface{}, func(*view.Vec)) {
			h := &sipsp.HdrLst{}
			h.Hdrs = make([]sipsp.Hdr, 1)
			h.N = 1
			return h, func(v *view.Vec) { view.HdrLst(v, h, view.Opt{}) }
		}},
	}
	for _, r := range roots {
		// collect the leaf paths once
		ptr, _ := r.mk()
		var paths [][]int
		collectLeaves(reflect.ValueOf(ptr).Elem(), nil, &paths)
		if len(paths) == 0 {
			return fmt.Errorf("view completeness: no exported fields found in %s", r.name)
		}
		for _, path := range paths {
			ptr, walk := r.mk()
			var base, flipped view.Vec
			base.Reset(-1)
			walk(&base)
			leaf, name := follow(reflect.ValueOf(ptr).Elem(), path)
			if !flip(leaf) {
				return fmt.Errorf("view completeness: cannot flip %s.%s (kind %s): harness out of date", r.name, name, leaf.Kind())
			}
			flipped.Reset(-1)
			walk(&flipped)
			if view.Equal(&base, &flipped) {
				return fmt.Errorf("view completeness: changing exported field %s.%s does not change the public view: harness out of date", r.name, name)
			}
		}
	}
	return nil
}

// collectLeaves lists index paths to every exported leaf field (recursing into
// structs, element 0 of slices/arrays of structs). Embedded *IState structs are
// internal automaton state and skipped.
func collectLeaves(v reflect.Value, path []int, out *[][]int) {
	switch v.Kind() {
	case reflect.Struct:
		t := v.Type()
		for i := 0; i < t.NumField(); i++ {
			f := t.Field(i)
			if f.PkgPath != "" || strings.HasSuffix(f.Type.Name(), "IState") {
				continue
			}
			collectLeaves(v.Field(i), append(append([]int(nil), path...), i), out)
		}
	case reflect.Slice:
		if v.Type().Elem().Kind() == reflect.Uint8 {
			*out = append(*out, path)
			return
		}
		if v.Len() > 0 {
			collectLeaves(v.Index(0), append(append([]int(nil), path...), -1), out)
		}
	case reflect.Array:
		if v.Len() > 0 {
			collectLeaves(v.Index(0), append(append([]int(nil), path...), -1), out)
		}
	default:
		*out = append(*out, path)
	}
}

func follow(v reflect.Value, path []int) (reflect.Value, string) {
	name := ""
	for _, i := range path {
		if i < 0 {
			v = v.Index(0)
			name += "[0]"
			continue
		}
		name += "." + v.Type().Field(i).Name
		v = v.Field(i)
	}
	return v, strings.TrimPrefix(name, ".")
}

func flip(v reflect.Value) bool {
	if !v.CanSet() {
		return false
	}
	switch v.Kind() {
	case reflect.Bool:
		v.SetBool(!v.Bool())
	case reflect.Int, reflect.Int8, reflect.Int16, reflect.Int32, reflect.Int64:
		v.SetInt(v.Int() + 1)
	case reflect.Uint, reflect.Uint8, reflect.Uint16, reflect.Uint32, reflect.Uint64:
		v.SetUint(v.Uint() + 1)
	case reflect.Slice:
		v.Set(reflect.ValueOf([]byte{9, 9, 9, 9, 9}))
	default:
		return false
	}
	return true
}
