package mon

// SelfTest checks the harness' own assumptions (view completeness, reference
// tables vs. library constants). An error makes every run inconclusive.
func SelfTest() error {
	return nil
}
