package mon

import (
	"bytes"
	"fmt"

	"github.com/intuitivelabs/sipsp"

	"verif/harness/core"
	"verif/harness/gen"
	"verif/harness/ref"
)

func pfIs(f sipsp.PField, s gen.Span) bool {
	return int(f.Offs) == s.S && int(f.Len) == s.E-s.S
}

// checkHdrBlock is the C07 oracle: the generated header block of m must be
// tokenised exactly as generated, for header capacity hcap, with or without
// typed bodies.
func checkHdrBlock(w *core.Worker, m *gen.MsgSpec, hcap int, withPV bool, cuts []int, pollute []byte) bool {
	return checkHdrBlockAt(w, m, hcap, withPV, cuts, pollute, 0)
}

// checkHdrBlockAt: the message text starts at offset shift of the buffer (cuts are
// relative to the text).
func checkHdrBlockAt(w *core.Worker, m0 *gen.MsgSpec, hcap int, withPV bool, cuts0 []int, pollute []byte, shift int) bool {
	m := m0
	cuts := cuts0
	if shift > 0 {
		// shifted copy of the spec
		mm := *m0
		mm.Raw = make([]byte, shift+len(m0.Raw))
		for i := 0; i < shift; i++ {
			mm.Raw[i] = "x: y\r\n"[i%6]
		}
		copy(mm.Raw[shift:], m0.Raw)
		mm.FLEnd += shift
		mm.HdrEnd += shift
		mm.Hdrs = make([]gen.HdrSpec, len(m0.Hdrs))
		for i, h := range m0.Hdrs {
			h.Name.S += shift
			h.Name.E += shift
			h.Val.S += shift
			h.Val.E += shift
			h.Line.S += shift
			h.Line.E += shift
			mm.Hdrs[i] = h
		}
		m = &mm
		cuts = make([]int, len(cuts0))
		for i, c := range cuts0 {
			cuts[i] = c + shift
		}
	}
	var hl sipsp.HdrLst
	var pv sipsp.PHdrVals
	hl.Hdrs = make([]sipsp.Hdr, hcap)
	buf := m.Raw
	var n int
	var e sipsp.ErrorHdr
	offs := m.FLEnd
	pan, pmsg, stk := core.Guard(func() {
		if pollute != nil {
			// the list (and value set) were used before for another, abandoned block and reset
			if withPV {
				sipsp.ParseHeaders(pollute, 0, &hl, &pv)
			} else {
				sipsp.ParseHeaders(pollute, 0, &hl, nil)
			}
			hl.Reset()
			pv.Reset()
		}
		e = sipsp.ErrHdrMoreBytes
		for _, c := range cuts {
			if c < offs {
				continue
			}
			if withPV {
				n, e = sipsp.ParseHeaders(isoCopy(buf[:c]), offs, &hl, &pv)
			} else {
				n, e = sipsp.ParseHeaders(isoCopy(buf[:c]), offs, &hl, nil)
			}
			if e != sipsp.ErrHdrMoreBytes {
				break
			}
			offs = n
		}
	})
	w.Eval(1)
	fail := func(cls, what string) bool {
		w.Fail(cls, func() *core.Violation {
			v := core.V(what, buf[m.FLEnd:], map[string]any{"hdr_cap": hcap, "typed_bodies": withPV, "cuts": append([]int(nil), cuts...), "headers_generated": len(m.Hdrs), "block_offset": m.FLEnd, "list_used_before_for": core.Esc(pollute)})
			v.Stack = stk
			return v
		})
		return false
	}
	if pan {
		return fail("panic", "ParseHeaders panicked on a well-formed header block: "+pmsg)
	}
	if e != sipsp.ErrHdrOk {
		return fail("rejected", fmt.Sprintf("well-formed header block not accepted: verdict %s at offset %d", errName(e), n))
	}
	if n != m.HdrEnd {
		return fail("offset", fmt.Sprintf("returned offset %d, the blank line ends at %d", n, m.HdrEnd))
	}
	if hl.N != len(m.Hdrs) {
		return fail("count", fmt.Sprintf("HdrLst.N = %d but the block has %d logical lines", hl.N, len(m.Hdrs)))
	}
	var flags sipsp.HdrFlags
	first := map[int]int{}
	for i := range m.Hdrs {
		flags.Set(sipsp.HdrT(m.Hdrs[i].Type))
		if _, ok := first[m.Hdrs[i].Type]; !ok {
			first[m.Hdrs[i].Type] = i
		}
	}
	if hl.PFlags != flags {
		return fail("flags", fmt.Sprintf("PFlags = %#x, the set of types in the block is %#x", hl.PFlags, flags))
	}
	cmpHdr := func(h *sipsp.Hdr, sp *gen.HdrSpec, what string) bool {
		if int(h.Type) != sp.Type {
			return fail("type", fmt.Sprintf("%s: Type %d (%s) for name %q, the name table says %d", what, h.Type, h.Type, buf[sp.Name.S:sp.Name.E], sp.Type))
		}
		if !pfIs(h.Name, sp.Name) {
			return fail("name", fmt.Sprintf("%s: Name %v = %q, written name is %q at [%d,%d)", what, h.Name, h.Name.Get(buf), buf[sp.Name.S:sp.Name.E], sp.Name.S, sp.Name.E))
		}
		if sp.EmptyVal {
			if h.Val.Len != 0 {
				return fail("value", fmt.Sprintf("%s (%q): Val %v = %q but the value is empty", what, buf[sp.Name.S:sp.Name.E], h.Val, h.Val.Get(buf)))
			}
		} else if !pfIs(h.Val, sp.Val) {
			return fail("value", fmt.Sprintf("%s (%q): Val %v = %q, the value from first to last non-whitespace byte is %q at [%d,%d)", what, buf[sp.Name.S:sp.Name.E], h.Val, h.Val.Get(buf), buf[sp.Val.S:sp.Val.E], sp.Val.S, sp.Val.E))
		}
		return true
	}
	for i := 0; i < len(m.Hdrs) && i < hcap; i++ {
		if !cmpHdr(&hl.Hdrs[i], &m.Hdrs[i], fmt.Sprintf("header %d", i)) {
			return false
		}
	}
	for t := sipsp.HdrNone; t <= sipsp.HdrOther; t++ {
		h := hl.GetHdr(t)
		if t == sipsp.HdrNone || t == sipsp.HdrOther {
			continue // the statement speaks about the KNOWN types only; what these two return is open
		}
		if i, ok := first[int(t)]; ok {
			if h == nil {
				return fail("first-of-type", fmt.Sprintf("GetHdr(%s) returned nil although line %d is such a header", t, i))
			}
			if !cmpHdr(h, &m.Hdrs[i], fmt.Sprintf("GetHdr(%s) (first such header is line %d)", t, i)) {
				return false
			}
		} else if h != nil && !h.Missing() { // (nil or a Missing() header: both say "none")
			return fail("first-of-type", fmt.Sprintf("GetHdr(%s) is not Missing() although the block has no such header", t))
		}
	}
	return true
}

// RunC07 is the monitor for C07.
func RunC07(r *core.Run) {
	r.Rule = "case = one grammar-generated header block (1..60 logical lines: known names in any letter case / compact forms, token names, near-miss names; SP/HT before the colon; 0..n value tokens separated by SP/HT/folds; CRLF, CR and LF line ends mixed; empty values; repeated headers) x header capacity 0..N+1 x {pure tokeniser, typed bodies} x {one-shot, chunked} x {new list, list used for an abandoned other block and Reset()}; expected by construction: verdict OK, offset after the blank line, N = number of logical lines, PFlags = set of types (independent name table), every stored header's Type/Name/Val (Val = first..last non-whitespace byte, empty value = empty field), GetHdr(t) = first header of type t or Missing(); non-trivial = block accepted and compared; distinct by hash(block, capacity, mode)"
	r.Assume = []string{"a lone CR line end is never followed by a line starting with LF (the concatenation would be a CRLF)", "typed headers (From, To, Call-ID, CSeq, Content-Length, Contact, Expires, P-Asserted-Identity) carry values that are well formed for their typed parser"}
	n := r.Pick(800000, 48000000)
	r.Stage("generated-blocks", n, func(w *core.Worker, idx int64) {
		rr := core.NewRand(r.Seed, 0xC07, 1, uint64(idx))
		o := gen.MsgOpts{MinHdrs: 1, MaxHdrs: 12, MultiNA: 40, NoBody: rr.Bool()}
		switch rr.Intn(10) {
		case 0:
			o.MaxHdrs = 60
		case 1:
			o.Plain = true
		case 2:
			o.Kinds = []int{gen.HOtherKind, gen.HNearMiss, gen.HVia, gen.HUA, gen.HRoute, gen.HRR, gen.HMaxFwd}
			o.MaxHdrs = 30
		}
		o.TrailSemi = true
		m := gen.Msg(rr, o)
		nh := len(m.Hdrs)
		caps := []int{0, 1, 2, nh - 1, nh, nh + 1, rr.Intn(nh + 2)}
		ok := true
		s := sc(w)
		for _, withPV := range []bool{false, true} {
			for k := 0; k < 3 && ok; k++ {
				hc := caps[rr.Intn(len(caps))]
				if hc < 0 {
					hc = 0
				}
				if k == 0 {
					s.cuts = append(s.cuts[:0], len(m.Raw))
				} else {
					s.cuts = CutsRandom(s.cuts, rr, m.FLEnd, len(m.Raw), rr.Range(1, 10))
				}
				var pollute []byte
				if k == 2 {
					// reuse: a prefix of another block was parsed into the same list, then Reset()
					m2 := gen.Msg(rr, gen.MsgOpts{MinHdrs: 2, MaxHdrs: 8, MultiNA: 50})
					blk := m2.Raw[m2.FLEnd:]
					pollute = blk[:rr.Intn(len(blk)+1)]
					w.Inc("blocks_on_reused_lists")
				}
				if k == 1 && rr.Intn(8) == 0 && len(m.Raw) < 4000 {
					// the same block far into a large buffer (offsets beyond 2^15 / close to 2^16)
					sh := []int{32700, 32768, 33003, 50000, 65535 - len(m.Raw)}[rr.Intn(5)]
					w.Inc("blocks_at_large_offsets")
					ok = checkHdrBlockAt(w, m, hc, withPV, s.cuts, nil, sh)
					continue
				}
				ok = checkHdrBlock(w, m, hc, withPV, s.cuts, pollute)
			}
		}
		if ok {
			w.Nontrivial(core.HashBytes(m.Raw[m.FLEnd:]))
			w.Inc("blocks_accepted_and_compared")
			w.Add("headers_compared", int64(nh))
		}
		if w.WantSample("generated-blocks") {
			w.Sample("generated-blocks", map[string]any{"block": core.Esc(m.Raw[m.FLEnd:m.HdrEnd]), "lines": nh})
		}
	})
	r.Require("C07 blocks compared", r.Counter("blocks_accepted_and_compared"), 20000)
}

// ---- C05 ----

func inside(f sipsp.PField, s, e int) bool {
	return int(f.Offs) >= s && int(f.Offs)+int(f.Len) <= e
}
func within(in, out sipsp.PField) bool {
	return int(in.Offs) >= int(out.Offs) && int(in.Offs)+int(in.Len) <= int(out.Offs)+int(out.Len)
}
func fend(f sipsp.PField) int { return int(f.Offs) + int(f.Len) }

// structuralCheck evaluates the C05 invariant on a successfully parsed message.
// buf is what the parser saw, start the start offset, n the returned offset.
func structuralCheck(m *sipsp.PSIPMsg, buf []byte, start, n int, flags uint8) (cls, what, finding string) {
	bad := func(c, w string) (string, string, string) { return c, w, "" }
	// first line
	fl := &m.FL
	var flf []sipsp.PField
	var fln []string
	if fl.Request() {
		flf, fln = []sipsp.PField{fl.Method, fl.URI, fl.Version}, []string{"Method", "URI", "Version"}
	} else {
		flf, fln = []sipsp.PField{fl.Version, fl.StatusCode, fl.Reason}, []string{"Version", "StatusCode", "Reason"}
	}
	// the first line is the text up to the first CR or LF (it cannot be folded)
	lineEnd := start
	for lineEnd < n && buf[lineEnd] != '\r' && buf[lineEnd] != '\n' {
		lineEnd++
	}
	prev := start
	for i, f := range flf {
		if pfNonZero(f) && fend(f) > lineEnd {
			return bad("first-line-containment", fmt.Sprintf("FL.%s %v reaches beyond the first line, which ends at %d", fln[i], f, lineEnd))
		}
		if !inside(f, start, n) {
			return bad("first-line-containment", fmt.Sprintf("FL.%s %v outside the consumed region [%d,%d)", fln[i], f, start, n))
		}
		if int(f.Offs) < prev {
			return bad("first-line-order", fmt.Sprintf("FL.%s %v starts before the end (%d) of the previous first-line field", fln[i], f, prev))
		}
		prev = fend(f)
	}
	// header lines by the reference splitter
	flEnd := lineEnd
	if flEnd+1 < n && buf[flEnd] == '\r' && buf[flEnd+1] == '\n' {
		flEnd += 2
	} else {
		flEnd++
	}
	lines, hend, ok := ref.HeaderLines(buf, flEnd)
	if !ok {
		return bad("blank-line", fmt.Sprintf("message accepted but the reference splitter finds no blank line after offset %d", flEnd))
	}
	if m.HL.N != len(lines) {
		return bad("header-count", fmt.Sprintf("HL.N=%d but the text has %d logical header lines", m.HL.N, len(lines)))
	}
	stored := m.HL.N
	if stored > len(m.HL.Hdrs) {
		stored = len(m.HL.Hdrs)
	}
	firstOfType := map[sipsp.HdrT]int{}
	for i := 0; i < stored; i++ {
		h := &m.HL.Hdrs[i]
		ln := lines[i]
		if _, ok := firstOfType[h.Type]; !ok {
			firstOfType[h.Type] = i
		}
		if int(h.Name.Offs) != ln.S || !inside(h.Name, ln.S, ln.E) || h.Name.Len == 0 {
			return bad("header-name-line", fmt.Sprintf("header %d: Name %v not at the start of its own line [%d,%d)", i, h.Name, ln.S, ln.E))
		}
		if h.Val.Offs == 0 && h.Val.Len == 0 {
			continue // empty value
		}
		if !inside(h.Val, fend(h.Name)+1, ln.E) {
			fnd := ""
			if (h.Type == sipsp.HdrContact || h.Type == sipsp.HdrPAI) && firstOfType[h.Type] != i && int(h.Val.Offs) < ln.S && fend(h.Val) <= ln.E {
				fnd = "D6"
			}
			return "header-value-line", fmt.Sprintf("header %d (%q): Val %v = %q is not inside the header's own line [%d,%d) after the name and colon", i, h.Name.Get(buf), h.Val, h.Val.Get(buf), ln.S, ln.E), fnd
		}
		v := h.Val.Get(buf)
		if len(v) > 0 && (ref.IsLWSByte(v[0]) || ref.IsLWSByte(v[len(v)-1])) {
			return bad("header-value-trim", fmt.Sprintf("header %d (%q): Val %q is not trimmed", i, h.Name.Get(buf), v))
		}
		if colon := bytes.IndexByte(buf[fend(h.Name):h.Val.Offs], ':'); colon < 0 {
			return bad("header-value-line", fmt.Sprintf("header %d: no colon between Name and Val", i))
		}
	}
	// first-of-type shortcuts: name at the start of a line, value inside that same line
	for t := sipsp.HdrFrom; t < sipsp.HdrOther; t++ {
		h := m.HL.GetHdr(t)
		if h == nil || h.Missing() {
			continue
		}
		li := -1
		for k, ln := range lines {
			if int(h.Name.Offs) == ln.S {
				li = k
				break
			}
		}
		if li < 0 || !inside(h.Name, lines[li].S, lines[li].E) {
			return bad("shortcut-name-line", fmt.Sprintf("GetHdr(%s): Name %v does not start a header line", t, h.Name))
		}
		if (h.Val.Offs != 0 || h.Val.Len != 0) && !inside(h.Val, fend(h.Name)+1, lines[li].E) {
			fnd := ""
			if (t == sipsp.HdrContact || t == sipsp.HdrPAI) && false {
				fnd = "D6"
			}
			return "shortcut-value-line", fmt.Sprintf("GetHdr(%s) (%q): Val %v = %q is not inside that header's own line [%d,%d)", t, h.Name.Get(buf), h.Val, h.Val.Get(buf), lines[li].S, lines[li].E), fnd
		}
	}
	// typed sub-fields nest
	nest := func(name string, f *sipsp.PFromBody) (string, string, string) {
		if !f.Parsed() {
			return "", "", ""
		}
		if !inside(f.V, start, n) {
			return bad("nesting", fmt.Sprintf("%s.V %v outside the consumed region", name, f.V))
		}
		for _, x := range []struct {
			n string
			f sipsp.PField
		}{{"Name", f.Name}, {"URI", f.URI}, {"Params", f.Params}, {"Tag", f.Tag}} {
			if (x.f.Offs != 0 || x.f.Len != 0) && !within(x.f, f.V) {
				return bad("nesting", fmt.Sprintf("%s.%s %v = %q not inside the value %v = %q", name, x.n, x.f, x.f.Get(buf), f.V, f.V.Get(buf)))
			}
		}
		if f.Tag.Len > 0 && !within(f.Tag, f.Params) {
			return bad("nesting", fmt.Sprintf("%s.Tag %v not inside Params %v", name, f.Tag, f.Params))
		}
		return "", "", ""
	}
	if c, w, f := nest("From", &m.PV.From); c != "" {
		return c, w, f
	}
	if c, w, f := nest("To", &m.PV.To); c != "" {
		return c, w, f
	}
	for i := 0; i < m.PV.Contacts.VNo(); i++ {
		if c, w, f := nest(fmt.Sprintf("Contacts.Vals[%d]", i), &m.PV.Contacts.Vals[i]); c != "" {
			return c, w, f
		}
	}
	for i := 0; i < m.PV.PAIs.VNo(); i++ {
		if c, w, f := nest(fmt.Sprintf("PAIs.Vals[%d]", i), &m.PV.PAIs.Vals[i]); c != "" {
			return c, w, f
		}
	}
	valueOf := func(t sipsp.HdrT, v sipsp.PField, what string) (string, string, string) {
		h := m.HL.GetHdr(t)
		if h == nil || h.Missing() {
			return bad("typed-without-header", fmt.Sprintf("%s parsed but GetHdr(%s) is missing", what, t))
		}
		if !within(v, h.Val) {
			return bad("typed-value", fmt.Sprintf("%s value %v is not inside the first %s header's Val %v", what, v, t, h.Val))
		}
		return "", "", ""
	}
	if m.PV.From.Parsed() {
		if c, w, f := valueOf(sipsp.HdrFrom, m.PV.From.V, "From"); c != "" {
			return c, w, f
		}
	}
	if m.PV.To.Parsed() {
		if c, w, f := valueOf(sipsp.HdrTo, m.PV.To.V, "To"); c != "" {
			return c, w, f
		}
	}
	if cs := &m.PV.CSeq; cs.Parsed() {
		if !within(cs.CSeq, cs.V) || !within(cs.Method, cs.V) || fend(cs.CSeq) > int(cs.Method.Offs) {
			return bad("nesting", fmt.Sprintf("CSeq number %v / method %v not inside (or not ordered in) the CSeq value %v", cs.CSeq, cs.Method, cs.V))
		}
		if c, w, f := valueOf(sipsp.HdrCSeq, cs.V, "CSeq"); c != "" {
			return c, w, f
		}
	}
	if m.PV.Callid.Parsed() {
		if c, w, f := valueOf(sipsp.HdrCallID, m.PV.Callid.CallID, "Call-ID"); c != "" {
			return c, w, f
		}
	}
	if m.PV.CLen.Parsed() {
		if c, w, f := valueOf(sipsp.HdrCLen, m.PV.CLen.SVal, "Content-Length"); c != "" {
			return c, w, f
		}
	}
	if m.PV.Expires.Parsed() {
		if c, w, f := valueOf(sipsp.HdrExpires, m.PV.Expires.SVal, "Expires"); c != "" {
			return c, w, f
		}
	}
	// contact / PAI values lie inside the value of some header of their type
	inHdrOfType := func(t sipsp.HdrT, v sipsp.PField) bool {
		for i := 0; i < stored; i++ {
			if m.HL.Hdrs[i].Type == t && within(v, m.HL.Hdrs[i].Val) {
				return true
			}
		}
		return false
	}
	if stored == m.HL.N {
		for i := 0; i < m.PV.Contacts.VNo(); i++ {
			if v := m.PV.Contacts.Vals[i].V; !inHdrOfType(sipsp.HdrContact, v) {
				return bad("contact-value-header", fmt.Sprintf("Contacts.Vals[%d].V %v = %q is not inside the value of any stored Contact header", i, v, v.Get(buf)))
			}
		}
		for i := 0; i < m.PV.PAIs.VNo(); i++ {
			if v := m.PV.PAIs.Vals[i].V; !inHdrOfType(sipsp.HdrPAI, v) {
				return bad("pai-value-header", fmt.Sprintf("PAIs.Vals[%d].V %v = %q is not inside the value of any stored P-Asserted-Identity header", i, v, v.Get(buf)))
			}
		}
	}
	// body / raw message
	if int(m.Body.Offs) != hend {
		return bad("body-start", fmt.Sprintf("Body starts at %d but the headers end (after the blank line) at %d", m.Body.Offs, hend))
	}
	if fend(m.Body) != n {
		return bad("body-end", fmt.Sprintf("Body %v does not end at the returned offset %d", m.Body, n))
	}
	if !bytes.Equal(m.RawMsg, buf[start:n]) {
		return bad("raw-message", fmt.Sprintf("RawMsg (len %d) is not buf[%d:%d]", len(m.RawMsg), start, n))
	}
	if !bytes.Equal(m.Buf, buf[:n]) {
		return bad("buf", fmt.Sprintf("Buf (len %d) is not buf[:%d]", len(m.Buf), n))
	}
	return "", "", ""
}

// RunC05 is the monitor for C05.
func RunC05(r *core.Run) {
	r.Rule = "case = one message that parses successfully (grammar-generated with repeated / multi-value Contact, P-Asserted-Identity, From headers emphasised, or a mutated corpus message that is still accepted), flags 0..7, any capacities, one-shot or chunked, on a new object or on one used for an abandoned other message and Reset()/Init(); the structural invariant is evaluated on the result: all fields inside [start, returned offset); first-line fields ordered; every stored header's Name at the start of and its Val inside that header's OWN logical line (line extents from an independent splitter), after the colon, trimmed (an empty value is the empty field); every first-of-type shortcut GetHdr(t) (also for headers beyond the array) has its Name at a line start and its Val inside that line; Name/URI/Params/Tag inside V, Tag inside Params, CSeq number before method inside the CSeq value; typed values lie inside the Val of the first header of their type; every stored contact / identity value lies inside a Contact / PAI header value; Body starts after the blank line and ends at the returned offset; RawMsg == buf[start:offset], Buf == buf[:offset]; non-trivial = accepted messages; distinct by hash"
	r.Assume = []string{"the independent splitter (ref.HeaderLines) implements: a logical line ends at CRLF / CR / LF not followed by SP or HT"}
	corpus := loadCorpus()
	n := r.Pick(1500000, 160000000)
	r.Stage("messages", n, func(w *core.Worker, idx int64) {
		rr := core.NewRand(r.Seed, 0xC05, 1, uint64(idx))
		var in []byte
		var nh, nc int
		if rr.Intn(4) > 0 {
			o := gen.MsgOpts{MinHdrs: 1, MaxHdrs: 12, MultiNA: 50, TrailSemi: true}
			if rr.Bool() {
				o.Kinds = []int{gen.HContact, gen.HContact, gen.HPAI, gen.HPAI, gen.HFrom, gen.HFrom, gen.HTo, gen.HCSeq, gen.HCallID, gen.HVia, gen.HOtherKind, gen.HExpires}
			}
			m := gen.Msg(rr, o)
			in, nh, nc = m.Raw, len(m.Hdrs), countContacts(m)
			if rr.Intn(12) == 0 {
				// a backslash in front of a line end (or another hostile pair) inside a quoted
				// string: usually rejected; if accepted, the line structure must still hold
				if q := bytes.IndexByte(in[m.FLEnd:], '"'); q >= 0 {
					at := m.FLEnd + q + 1 + rr.Intn(2)
					if at > len(in) {
						at = len(in)
					}
					ins := []string{"\\\n", "\\\r", "\\\r\n", "\\\n ", "\\\r\n\t", "\\\"", "\\\\\n", "\"\n", "\\"}[rr.Intn(9)]
					in = append(append(append([]byte(nil), in[:at]...), ins...), in[at:]...)
					w.Inc("quoted_string_line_end_mutations")
				}
			}
		} else {
			in = gen.Mutate(rr, corpus[rr.Intn(len(corpus))], 2)
			nh, nc = 10, 3
		}
		s := sc(w)
		var start int
		s.buf, start = withJunk(rr, in, s.buf)
		buf := s.buf
		cfg := msgCfg(rr, nh, nc)
		o := newMsg(cfg).(*msgObj)
		if rr.Intn(3) == 0 {
			// the object was used before: another message abandoned somewhere, then Reset()/Init()
			other := gen.Msg(rr, gen.MsgOpts{MinHdrs: 2, MaxHdrs: 8, MultiNA: 60, Kinds: []int{gen.HContact, gen.HContact, gen.HPAI, gen.HFrom, gen.HTo, gen.HCSeq, gen.HVia}}).Raw
			ab := rr.Intn(len(other) + 1)
			core.Guard(func() {
				sipsp.ParseSIPMsg(other[:ab], 0, &o.m, cfg.MsgFlags&^sipsp.SIPMsgNoMoreDataF)
				if rr.Intn(3) == 0 {
					// the caller cycles through its arrays with Init: own -> built-in -> own again
					hs, cs := callerHdrs(&o.m, cfg), callerContacts(&o.m, cfg)
					o.m.Init(nil, nil, nil)
					sipsp.ParseSIPMsg(other[:ab/2], 0, &o.m, 0)
					o.m.Init(nil, hs, cs)
				} else {
					doReset(o, rr.Intn(rkCount), cfg)
				}
			})
			w.Inc("reused_objects")
		}
		cuts := []int{len(buf)}
		if rr.Bool() {
			cuts = CutsRandom(nil, rr, start, len(buf), rr.Range(1, 8))
		}
		nn, e, _, pan := drive(o, buf, start, cuts)
		w.Eval(1)
		if pan != "" || e != sipsp.ErrHdrOk {
			w.Inc("not_accepted")
			return
		}
		// the parser saw buf[:lastcut]; the definitive call saw the prefix at which it finished
		seen := buf
		for _, c := range cuts {
			if c >= nn {
				seen = buf[:c]
				break
			}
		}
		var cls, what, fnd string
		if p, msg, _ := core.Guard(func() { cls, what, fnd = structuralCheck(&o.m, seen, start, nn, cfg.MsgFlags) }); p {
			cls, what = "check-panicked", "evaluating the invariant panicked (field out of range?): "+msg
		}
		w.Inc("accepted")
		if cls != "" {
			w.Fail(cls, func() *core.Violation {
				d := (&Case{P: Parsers[0], Cfg: cfg, Buf: buf, Start: start}).detail()
				d["cuts"] = cuts
				v := core.V(what, buf, d)
				v.Finding = fnd
				return v
			})
			return
		}
		w.Nontrivial(core.HashBytes(buf) ^ uint64(cfg.MsgFlags)<<50)
		if w.WantSample("messages") {
			w.Sample("messages", map[string]any{"msg": core.Esc(buf), "start": start, "flags": cfg.MsgFlags, "hdr_cap": cfg.HdrCap, "contact_cap": cfg.ContactCap})
		}
	})
	r.Require("C05 accepted messages", r.Counter("accepted"), 30000)
}
