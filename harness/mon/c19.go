package mon

import (
	"fmt"
	"regexp"

	"github.com/intuitivelabs/sipsp"

	"verif/harness/core"
	"verif/harness/gen"
	"verif/harness/ref"
)

var sigRe = regexp.MustCompile(`^$|^[0-9a-f]{1,9}I[0-9a-f]{6}F[0-9a-f]{4}V[0-9a-f]{4}$`)

func fingerprinted(t int, invite bool) bool {
	switch t {
	case ref.HdrCallID, ref.HdrCSeq, ref.HdrFrom, ref.HdrMaxFwd, ref.HdrTo, ref.HdrVia, ref.HdrUA:
		return true
	case ref.HdrContact:
		return invite
	}
	return false
}

type sigRun struct {
	sig sipsp.MsgSig
	err sipsp.ErrorHdr
	pe  sipsp.ErrorHdr
	n   int
	pan string
}

func sigOf(buf []byte, hcap int, cuts []int) (r sigRun) { return sigOfAt(buf, 0, hcap, cuts) }

// sigOfAt: the message starts at offset start of buf (cuts are absolute).
func sigOfAt(buf []byte, start int, hcap int, cuts []int) (r sigRun) {
	o := newMsg(Cfg{HdrCap: hcap, ContactCap: -1, MsgFlags: sipsp.SIPMsgSkipBodyF}).(*msgObj)
	var pan string
	if len(cuts) > 1 {
		// the signature (and the accessors) may be asked for while the parse is suspended: whatever
		// comes back then must not influence the signature of the finished message
		offs := start
		r.pe = sipsp.ErrHdrMoreBytes
		for _, c := range cuts {
			pre := isoCopy(buf[:c])
			r.n, r.pe, pan, _ = safeCall(o, pre, offs)
			if pan != "" || r.pe != sipsp.ErrHdrMoreBytes {
				break
			}
			offs = r.n
			func() {
				defer func() { recover() }()
				// (the fields parsed so far refer to the bytes delivered so far)
				o.m.Buf = pre
				sipsp.GetMsgSig(&o.m)
				_, _, _ = o.m.Method(), o.m.Request(), o.m.Parsed()
			}()
		}
	} else {
		r.n, r.pe, _, pan = drive(o, buf, start, cuts)
	}
	if pan != "" {
		r.pan = pan
		return
	}
	if r.pe != sipsp.ErrHdrOk {
		return
	}
	p, msg, _ := core.Guard(func() { r.sig, r.err = sipsp.GetMsgSig(&o.m) })
	if p {
		r.pan = msg
	}
	return
}

var fillerLines = []string{"X-Foo: bar\r\n", "Subject: hello  world\r\n", "Route: <sip:p1;lr>, <sip:p2;lr>\r\n", "Record-Route: <sip:rr;lr>\r\n", "Expires: 300\r\n",
	"P-Asserted-Identity: \"x\" <sip:p@q>\r\n", "Allow: INVITE, ACK\r\n", "k: timer\r\n", "Supported:\r\n", "Accept: a/b;q=0.1\r\n folded\r\n", "Authorization: Digest u=\"a,b\"\r\n", "s: x\r\n"}

var dupLines = map[int][]string{
	ref.HdrFrom:    {"From: <sip:late@x>;tag=LATE-1.2.3.4\r\n", "f: sip:late@y;tag=zz\r\n"},
	ref.HdrTo:      {"To: <sip:late@x>;tag=q\r\n", "t: sip:t@u\r\n"},
	ref.HdrCallID:  {"Call-ID: late-call-id@10.9.8.7\r\n", "i: x=y\r\n"},
	ref.HdrCSeq:    {"CSeq: 999 OPTIONS\r\n"},
	ref.HdrVia:     {"Via: SIP/2.0/UDP late;branch=z9hG4bK+late/=\r\n", "v: SIP/2.0/TCP l;branch=1.2.3.4\r\n"},
	ref.HdrMaxFwd:  {"Max-Forwards: 1\r\n"},
	ref.HdrUA:      {"User-Agent: late/1.0\r\n"},
	ref.HdrContact: {"Contact: <sip:late@c>\r\n", "m: *\r\n"},
}

var otherValues = map[int][]string{
	ref.HdrTo:      {" <sip:other@to.example>;tag=zz", "sip:x@y", "\"N\" <sips:n@[::1]>"},
	ref.HdrCSeq:    {" 1 INVITE", "4294967295 x"},
	ref.HdrMaxFwd:  {" 70", "0"},
	ref.HdrUA:      {" other agent/2.0 (x)", "y"},
	ref.HdrContact: {" <sip:c@d>;expires=5", "sip:e@f, <sip:g@h>"},
}

// RunC19 is the monitor for C19.
func RunC19(r *core.Run) {
	r.Rule = "case = one grammar-generated request (any permutation/subset of the fingerprinted headers Call-ID, Contact, CSeq, From, Max-Forwards, To, Via, User-Agent in long or compact form, fillers in between) plus derived variants that keep the documented key: other headers inserted / removed / their values changed, fingerprinted headers repeated later (also in the other form), values of To / CSeq / Max-Forwards / User-Agent / Contact and the non-tag part of From changed, other chunk schedule, header capacity >= N: signature and ErrHdrOk must be unchanged; capacity < N: same signature or ErrHdrTrunc; replies: ErrHdrEmpty; components: (CidSig,CidSLen) == GetCallIDSig(call-id text), ViaBSig == GetViaBrSig(first Via value), HdrSigLen == number of distinct fingerprinted header types present (Contact only for INVITE) <= 8 with distinct entries whose compact bit matches the first occurrence; String() matches ^$|^[0-9a-f]{1,9}I[0-9a-f]{6}F[0-9a-f]{4}V[0-9a-f]{4}$; non-trivial = base request signed and at least one variant compared; distinct by hash"
	r.Assume = []string{"'first Via' = the value of the first Via header line as the header tokeniser reports it", "variants never add or remove a Content-Length header (messages are parsed in skip-body mode)"}
	kinds := []int{gen.HFrom, gen.HTo, gen.HCallID, gen.HCSeq, gen.HVia, gen.HVia, gen.HMaxFwd, gen.HContact, gen.HUA, gen.HOtherKind, gen.HOtherKind, gen.HRoute, gen.HExpires, gen.HPAI, gen.HNearMiss}
	n := r.Pick(400000, 32000000)
	r.Stage("requests+variants", n, func(w *core.Worker, idx int64) {
		rr := core.NewRand(r.Seed, 0xC19, 1, uint64(idx))
		mo := gen.MsgOpts{Request: 1, MinHdrs: 2, MaxHdrs: 14, Kinds: kinds, CLenMode: 1, MultiNA: 30, NoBody: rr.Bool()}
		if rr.Intn(6) == 0 {
			// every fingerprinted header type present (INVITE: all eight), in a random order, with a
			// few others in between: the eighth entry fills the signature
			seq := []int{gen.HFrom, gen.HTo, gen.HCallID, gen.HCSeq, gen.HVia, gen.HMaxFwd, gen.HContact, gen.HUA}
			for k := rr.Intn(4); k > 0; k-- {
				seq = append(seq, []int{gen.HOtherKind, gen.HRoute, gen.HVia, gen.HExpires}[rr.Intn(4)])
			}
			for i := len(seq) - 1; i > 0; i-- {
				j := rr.Intn(i + 1)
				seq[i], seq[j] = seq[j], seq[i]
			}
			mo.Seq = seq
			mo.Method = []string{"INVITE", "INVITE", "REGISTER", "OPTIONS"}[rr.Intn(4)]
			w.Inc("requests_with_all_fingerprinted_types")
		}
		m := gen.Msg(rr, mo)
		buf := m.Raw
		nh := len(m.Hdrs)
		base := sigOf(buf, nh+2, []int{len(buf)})
		w.Eval(1)
		fail := func(cls, what string, vb []byte) {
			w.Fail(cls, func() *core.Violation {
				d := map[string]any{"base": core.Esc(buf), "base_sig": base.sig.String()}
				if vb != nil {
					d["variant"] = core.Esc(vb)
				}
				return core.V(what, buf, d)
			})
		}
		if base.pan != "" {
			return
		}
		if base.pe != sipsp.ErrHdrOk {
			fail("generator-message-rejected", fmt.Sprintf("generated request not accepted: %s", errName(base.pe)), nil)
			return
		}
		if base.err != sipsp.ErrHdrOk {
			fail("base-not-signed", fmt.Sprintf("GetMsgSig on a request with ample header capacity returned %s", errName(base.err)), nil)
			return
		}
		invite := m.MethodNo == ref.MInvite
		// by-construction facts
		seen := map[int]bool{}
		var wantCompact []bool
		var callid, via []byte
		for i := range m.Hdrs {
			h := &m.Hdrs[i]
			if seen[h.Type] {
				continue
			}
			seen[h.Type] = true
			if h.Type == ref.HdrCallID {
				callid = buf[h.Val.S:h.Val.E]
			}
			if h.Type == ref.HdrVia && !h.EmptyVal {
				via = buf[h.Val.S:h.Val.E]
			}
			if fingerprinted(h.Type, invite) {
				wantCompact = append(wantCompact, h.Name.Len() == 1)
			}
		}
		sig := base.sig
		if int(sig.Method) != m.MethodNo {
			fail("method", fmt.Sprintf("signature method %d, request method %d", sig.Method, m.MethodNo), nil)
			return
		}
		if sig.HdrSigLen != len(wantCompact) || sig.HdrSigLen > 8 {
			fail("hdr-sig-len", fmt.Sprintf("HdrSigLen=%d, the request has %d distinct fingerprinted header types", sig.HdrSigLen, len(wantCompact)), nil)
			return
		}
		ids := map[sipsp.HdrSigId]bool{}
		for i := 0; i < sig.HdrSigLen; i++ {
			id := sig.HdrSig[i] &^ sipsp.HdrSigIdCMask
			if ids[id] || id >= 8 {
				fail("hdr-sig-entries", fmt.Sprintf("HdrSig %v: entry %d repeats or is out of range", sig.HdrSig[:sig.HdrSigLen], i), nil)
				return
			}
			ids[id] = true
			if (sig.HdrSig[i]&sipsp.HdrSigIdCMask != 0) != wantCompact[i] {
				fail("hdr-sig-compact", fmt.Sprintf("HdrSig %v: entry %d compact bit does not match the form of the %d-th fingerprinted header", sig.HdrSig[:sig.HdrSigLen], i, i), nil)
				return
			}
		}
		cs, cl := sipsp.GetCallIDSig(callid)
		if sig.CidSig != cs || sig.CidSLen != cl {
			fail("callid-component", fmt.Sprintf("CidSig/CidSLen = %#x/%d, GetCallIDSig(%q) = %#x/%d", sig.CidSig, sig.CidSLen, callid, cs, cl), nil)
			return
		}
		vs, _ := sipsp.GetViaBrSig(via)
		if sig.ViaBSig != vs {
			fail("via-component", fmt.Sprintf("ViaBSig = %#x, GetViaBrSig(%q) = %#x", sig.ViaBSig, via, vs), nil)
			return
		}
		if s := sig.String(); !sigRe.MatchString(s) {
			fail("string-shape", fmt.Sprintf("String() = %q is not well formed", s), nil)
			return
		}
		// ---- variants ----
		lines := make([][]byte, nh)
		for i := range m.Hdrs {
			lines[i] = buf[m.Hdrs[i].Line.S:m.Hdrs[i].Line.E]
		}
		assemble := func(ls [][]byte) []byte {
			out := append([]byte(nil), buf[:m.FLEnd]...)
			for _, l := range ls {
				out = append(out, l...)
			}
			return append(out, buf[m.Hdrs[nh-1].Line.E:]...) // blank line + body
		}
		fixEOL := func(ls [][]byte) [][]byte {
			// a line ending in a lone CR must not be followed by an inserted line starting with LF: ours never do
			return ls
		}
		type variant struct {
			name string
			b    []byte
			nhdr int
		}
		var vars []variant
		// V1 insert fillers
		{
			ls := [][]byte{}
			for i := 0; i <= nh; i++ {
				for rr.Intn(3) == 0 {
					ls = append(ls, []byte(fillerLines[rr.Intn(len(fillerLines))]))
				}
				if i < nh {
					ls = append(ls, lines[i])
				}
			}
			vars = append(vars, variant{"other headers inserted", assemble(fixEOL(ls)), len(ls)})
		}
		// V2 remove non-fingerprinted headers (never the last line: it carries the block's final line end)
		{
			ls := [][]byte{}
			for i := 0; i < nh; i++ {
				t := m.Hdrs[i].Type
				if t == ref.HdrExpires && typeCount(m, t) > 1 {
					// a repeated Expires may carry any text; removing the first would make it the typed one
					ls = append(ls, lines[i])
					continue
				}
				if !fingerprinted(t, invite) && t != ref.HdrContact && t != ref.HdrCLen && i != nh-1 && rr.Intn(2) == 0 {
					continue
				}
				ls = append(ls, lines[i])
			}
			vars = append(vars, variant{"other headers removed", assemble(ls), len(ls)})
		}
		// V3 repeat fingerprinted headers later
		{
			ls := [][]byte{}
			last := lines[nh-1]
			ls = append(ls, lines[:nh-1]...)
			// the original last line keeps its own line end; repeated lines go before it only if their type already occurred
			var extra [][]byte
			for _, t := range []int{ref.HdrFrom, ref.HdrTo, ref.HdrCallID, ref.HdrCSeq, ref.HdrVia, ref.HdrMaxFwd, ref.HdrContact, ref.HdrUA} {
				cands := dupLines[t]
				if seen[t] && rr.Intn(2) == 0 {
					extra = append(extra, []byte(cands[rr.Intn(len(cands))]))
				}
			}
			// place the repeats after every first occurrence: append at the end, original last line first
			ls = append(ls, last)
			if len(last) > 0 && last[len(last)-1] == '\r' {
				extra = nil // keep the text unambiguous
			}
			ls = append(ls, extra...)
			out := append([]byte(nil), buf[:m.FLEnd]...)
			for _, l := range ls {
				out = append(out, l...)
			}
			out = append(out, buf[m.Hdrs[nh-1].Line.E:]...)
			vars = append(vars, variant{"fingerprinted headers repeated later", out, len(ls)})
		}
		// V4/V7 change values of non-key headers
		{
			ls := [][]byte{}
			for i := 0; i < nh; i++ {
				h := &m.Hdrs[i]
				if cands, ok := otherValues[h.Type]; ok && rr.Intn(2) == 0 && !h.EmptyVal {
					l := append([]byte(nil), buf[h.Line.S:h.Val.S]...)
					l = append(l, cands[rr.Intn(len(cands))]...)
					l = append(l, buf[h.Val.E:h.Line.E]...)
					ls = append(ls, l)
				} else if h.Type == ref.HdrOther && !h.EmptyVal && rr.Intn(2) == 0 {
					l := append([]byte(nil), buf[h.Line.S:h.Val.S]...)
					l = append(l, "changed value 1.2.3.4"...)
					l = append(l, buf[h.Val.E:h.Line.E]...)
					ls = append(ls, l)
				} else if h.Type == ref.HdrFrom && len(h.NAs) == 1 && !h.NAs[0].Bare && rr.Intn(2) == 0 {
					// same tag, other URI
					na := h.NAs[0]
					l := append([]byte(nil), buf[h.Line.S:na.URI.S]...)
					l = append(l, "sips:changed@[2001:db8::5]:5071"...)
					l = append(l, buf[na.URI.E:h.Line.E]...)
					ls = append(ls, l)
				} else {
					ls = append(ls, lines[i])
				}
			}
			vars = append(vars, variant{"values outside the fingerprinted strings changed", assemble(ls), len(ls)})
		}
		// the same bytes behind k bytes of other data, parsed from offset k
		{
			k := []int{1, 2, 7, 40, 300, 4096}[rr.Intn(6)]
			s := sc(w)
			s.buf = shiftBuf(rr, s.buf, buf, k)
			cuts := []int{len(s.buf)}
			if rr.Bool() {
				cuts = CutsRandom(nil, rr, k, len(s.buf), rr.Range(1, 4))
			}
			got := sigOfAt(s.buf, k, nh+2, cuts)
			w.Eval(1)
			if got.pan != "" || got.pe != sipsp.ErrHdrOk || got.err != base.err || got.sig != base.sig {
				shifted := append([]byte(nil), s.buf...)
				fail("start-offset", fmt.Sprintf("the same request parsed at offset %d: signature %q / %s (parse %s, panic %q); at offset 0: %q / %s", k, got.sig.String(), errName(got.err), errName(got.pe), got.pan, base.sig.String(), errName(base.err)), shifted)
				return
			}
		}
		compared := 0
		for _, v := range vars {
			cuts := []int{len(v.b)}
			if rr.Bool() {
				cuts = CutsRandom(nil, rr, 0, len(v.b), rr.Range(1, 8))
			}
			hc := v.nhdr + rr.Intn(3)
			got := sigOf(v.b, hc, cuts)
			w.Eval(1)
			if got.pan != "" {
				continue
			}
			if got.pe != sipsp.ErrHdrOk {
				fail("variant-rejected", fmt.Sprintf("variant (%s) not accepted: %s", v.name, errName(got.pe)), v.b)
				return
			}
			if got.err != sipsp.ErrHdrOk || got.sig != sig {
				fail("variant-signature/"+v.name, fmt.Sprintf("variant (%s), capacity %d: signature %q / %s, base signature %q", v.name, hc, got.sig.String(), errName(got.err), sig.String()), v.b)
				return
			}
			compared++
			// too small header array: same signature or explicit truncation
			small := rr.Intn(v.nhdr)
			gs := sigOf(v.b, small, []int{len(v.b)})
			w.Eval(1)
			if gs.pan == "" && gs.pe == sipsp.ErrHdrOk {
				if !(gs.err == sipsp.ErrHdrTrunc || (gs.err == sipsp.ErrHdrOk && gs.sig == sig)) {
					fail("small-array", fmt.Sprintf("variant (%s) with a header array of %d for %d headers: signature %q / %s is neither the full signature %q nor ErrHdrTrunc", v.name, small, v.nhdr, gs.sig.String(), errName(gs.err), sig.String()), v.b)
					return
				}
				if gs.err == sipsp.ErrHdrTrunc {
					w.Inc("truncated_indications")
				} else {
					w.Inc("small_array_same_signature")
				}
				if gs.sig.HdrSigLen > 8 || !sigRe.MatchString(gs.sig.String()) {
					fail("small-array-shape", fmt.Sprintf("truncated signature %q malformed", gs.sig.String()), v.b)
					return
				}
			}
		}
		// built-in array (nil): 10 slots
		if g := sigOf(buf, -1, []int{len(buf)}); g.pan == "" && g.pe == sipsp.ErrHdrOk {
			if !(g.err == sipsp.ErrHdrTrunc && nh > 10) && !(g.err == sipsp.ErrHdrOk && g.sig == sig) {
				fail("builtin-array", fmt.Sprintf("built-in header array: signature %q / %s, base %q (headers: %d)", g.sig.String(), errName(g.err), sig.String(), nh), nil)
				return
			}
		}
		// first Via: only the branch parameter counts; other Via parameters may change freely,
		// also when the branch has no value
		{
			br := []string{";branch=z9hG4bK" + string(rr.Bytes(rr.Range(1, 12), []byte("abcdef0123456789-.+"))), ";branch", ";branch=", ";branch=1.2.3.4", ""}[rr.Intn(5)]
			mk := func(other string) []byte {
				out := append([]byte(nil), buf[:m.FLEnd]...)
				out = append(out, ("Via: SIP/2.0/UDP host.example" + other + br + "\r\n")...)
				return append(out, buf[m.FLEnd:]...)
			}
			v1 := mk([]string{";received=192.0.2.1", ";rport=5060;received=10.0.0.1", ";ttl=1"}[rr.Intn(3)])
			v2 := mk([]string{";received=abc-def_x", ";maddr=h+h/x;rport", ";x=\"q.r:s\"", ";x=\"a\\\"b,c\"", ";y=\"p,q\";z=\"\\\\\""}[rr.Intn(5)])
			g1, g2 := sigOf(v1, nh+3, []int{len(v1)}), sigOf(v2, nh+3, []int{len(v2)})
			w.Eval(2)
			if g1.pan == "" && g2.pan == "" && g1.pe == sipsp.ErrHdrOk && g2.pe == sipsp.ErrHdrOk {
				if g1.err != g2.err || g1.sig != g2.sig {
					fail("via-other-params", fmt.Sprintf("two requests that differ only in non-branch parameters of the first Via (branch part %q): signatures %q / %q", br, g1.sig.String(), g2.sig.String()), v2)
					return
				}
				w.Inc("via_param_pairs")
			}
		}
		// reply: no signature
		rep := append([]byte([]string{"SIP/2.0 200 OK\r\n", "sip/2.0 200 OK\r\n", "Sip/2.0 486 Busy\r\n", "SIP/2.0 000 \r\n"}[rr.Intn(4)]), buf[m.FLEnd:]...)
		if g := sigOf(rep, nh+2, []int{len(rep)}); g.pan == "" && g.pe == sipsp.ErrHdrOk {
			w.Eval(1)
			if g.err != sipsp.ErrHdrEmpty {
				fail("reply-signed", fmt.Sprintf("a reply yields signature %q / %s, expected ErrHdrEmpty", g.sig.String(), errName(g.err)), rep)
				return
			}
			w.Inc("replies")
		}
		if compared > 0 {
			w.Inc("bases_with_variants")
			w.Add("variants_compared", int64(compared))
			w.Nontrivial(core.HashBytes(buf))
		}
		if w.WantSample("requests+variants") {
			w.Sample("requests+variants", map[string]any{"base": core.Esc(buf), "signature": sig.String(), "variant_other_headers_inserted": core.Esc(vars[0].b)})
		}
	})
	r.Require("C19 bases with variants", r.Counter("bases_with_variants"), 20000)
	r.Require("C19 truncated indications", r.Counter("truncated_indications"), 500)
}

func typeCount(m *gen.MsgSpec, t int) (n int) {
	for i := range m.Hdrs {
		if m.Hdrs[i].Type == t {
			n++
		}
	}
	return
}
