package mon

import (
	"bytes"
	"fmt"

	"github.com/intuitivelabs/sipsp"

	"verif/harness/core"
	"verif/harness/ref"
)

func isTokenName(b []byte) bool {
	if len(b) == 0 {
		return false
	}
	for _, c := range b {
		if c == ':' || c == ' ' || c == '\t' || c == '\r' || c == '\n' {
			return false
		}
	}
	return true
}

// isRFCToken: only alphanumerics and - . ! % * _ + ` ' ~
func isRFCToken(b []byte) bool {
	if len(b) == 0 {
		return false
	}
	for _, c := range b {
		switch {
		case c >= '0' && c <= '9', c >= 'a' && c <= 'z', c >= 'A' && c <= 'Z':
		case c == '-' || c == '.' || c == '!' || c == '%' || c == '*' || c == '_' || c == '+' || c == '`' || c == '\'' || c == '~':
		default:
			return false
		}
	}
	return true
}

// classify checks one name against both reference tables, directly and (when
// the name can be written as a token) through the parsers that classify.
func classify(w *core.Worker, nm []byte, viaParsers bool) {
	var ht sipsp.HdrT
	var mt sipsp.SIPMethod
	pan, pmsg, stk := core.Guard(func() { ht = sipsp.GetHdrType(nm); mt = sipsp.GetMethodNo(nm) })
	w.Eval(2)
	if pan {
		fnd := ""
		if len(nm) == 0 {
			fnd = "D1"
		}
		w.Fail("lookup-panic", func() *core.Violation {
			v := core.V("GetHdrType/GetMethodNo did not return (panic: "+pmsg+")", nm, nil)
			v.Stack = stk
			v.Finding = fnd
			return v
		})
		return
	}
	wantH, wantM := ref.HdrType(nm), ref.MethodNo(nm)
	if int(ht) != wantH {
		w.Fail("hdr-type", func() *core.Violation {
			return core.V(fmt.Sprintf("GetHdrType(%q) = %d (%s), the table says %d", nm, ht, ht, wantH), nm, nil)
		})
	}
	if int(mt) != wantM {
		w.Fail("method-no", func() *core.Violation {
			return core.V(fmt.Sprintf("GetMethodNo(%q) = %d, the table says %d", nm, mt, wantM), nm, nil)
		})
	}
	if wantH != ref.HdrOther || wantM != ref.MOther {
		w.Inc("table_members")
	}
	if !viaParsers || !isTokenName(nm) {
		return
	}
	// the header parser must assign exactly this classification
	var h sipsp.Hdr
	line := append(append([]byte(nil), nm...), ": v\r\nX"...)
	var e sipsp.ErrorHdr
	pan, pmsg, _ = core.Guard(func() { _, e = sipsp.ParseHdrLine(line, 0, &h, nil) })
	w.Eval(1)
	// a name made of RFC 3261 token characters must parse; any other name may also be rejected (a
	// stricter parser is none of C16's business) - but if it is accepted the classification counts
	strict := isRFCToken(nm)
	if pan || (e != sipsp.ErrHdrOk && strict) || (e == sipsp.ErrHdrOk && int(h.Type) != wantH) {
		w.Fail("parsed-hdr-type", func() *core.Violation {
			return core.V(fmt.Sprintf("ParseHdrLine(%q) -> verdict %s, Type %d; the table says type %d (panic=%v %s)", line, errName(e), h.Type, wantH, pan, pmsg), line, nil)
		})
	}
	// request line and CSeq method
	if bytes.IndexByte(nm, 0) < 0 && !(len(nm) >= 7 && ref.Lower(nm[:7]) == "sip/2.0") {
		var fl sipsp.PFLine
		rl := append(append([]byte(nil), nm...), " sip:a SIP/2.0\r\nXXXXXXXXXXXXXX"...)
		pan, _, _ = core.Guard(func() { _, e = sipsp.ParseFLine(rl, 0, &fl) })
		w.Eval(1)
		if pan || (e != sipsp.ErrHdrOk && strict) || (e == sipsp.ErrHdrOk && (int(fl.MethodNo) != wantM || !fl.Request())) {
			w.Fail("parsed-method", func() *core.Violation {
				return core.V(fmt.Sprintf("ParseFLine(%q) -> verdict %s, MethodNo %d, Request()=%v; the table says method %d", rl, errName(e), fl.MethodNo, fl.Request(), wantM), rl, nil)
			})
		}
		if nm[0] < '0' || nm[0] > '9' {
			var cs sipsp.PCSeqBody
			cl := append([]byte(" 7 "), nm...)
			cl = append(cl, "\r\nX"...)
			pan, _, _ = core.Guard(func() { _, e = sipsp.ParseCSeqVal(cl, 0, &cs) })
			w.Eval(1)
			if pan || (e != sipsp.ErrHdrOk && strict) || (e == sipsp.ErrHdrOk && int(cs.MethodNo) != wantM) {
				w.Fail("parsed-cseq-method", func() *core.Violation {
					return core.V(fmt.Sprintf("ParseCSeqVal(%q) -> verdict %s, MethodNo %d; the table says %d", cl, errName(e), cs.MethodNo, wantM), cl, nil)
				})
			}
		}
	}
}

// oneEdits enumerates all one-edit neighbours of name over the full byte range.
func oneEditCount(n int) int64 {
	// substitute n*256, insert (n+1)*256, delete n, transpose n-1
	return int64(n*256 + (n+1)*256 + n + (n - 1))
}

func oneEdit(name []byte, k int64) []byte {
	n := len(name)
	out := make([]byte, 0, n+1)
	switch {
	case k < int64(n*256):
		out = append(out, name...)
		out[k/256] = byte(k % 256)
	case k < int64(n*256+(n+1)*256):
		k -= int64(n * 256)
		p := int(k / 256)
		out = append(out, name[:p]...)
		out = append(out, byte(k%256))
		out = append(out, name[p:]...)
	case k < int64(n*256+(n+1)*256+n):
		p := int(k - int64(n*256+(n+1)*256))
		out = append(out, name[:p]...)
		out = append(out, name[p+1:]...)
	default:
		p := int(k - int64(n*256+(n+1)*256+n))
		out = append(out, name...)
		out[p], out[p+1] = out[p+1], out[p]
	}
	return out
}

// RunC16 is the monitor for C16.
func RunC16(r *core.Run) {
	r.Rule = "case = one name; GetHdrType / GetMethodNo are compared with an independent table + ASCII fold written in the harness, and the same name is pushed through ParseHdrLine, ParseFLine and ParseCSeqVal whose Type / MethodNo must be that classification; families: all 2^len letter-case variants of every table name and method, every byte string of length 0..2 and every 7-bit string of length 3, all one-edit neighbours (substitute/insert/delete/transpose over all 256 byte values) of every table name and method, random long names, Name()<->GetMethodNo round trip for SIPMethod 0..255; non-trivial = name is a member of a table, or a one-edit neighbour / case variant of one (the non-members that collide in the lookup hash); all enumerated names are distinct within their family"
	r.Assume = []string{"the reference table (ref/tables.go) is the documented list: From/f To/t Call-ID/i CSeq Via/v Max-Forwards Content-Length/l Contact/m Expires User-Agent Record-Route Route P-Asserted-Identity; 14 methods"}
	names := [][]byte{}
	for _, n := range ref.HdrNameList {
		names = append(names, []byte(n))
	}
	for _, m := range ref.MethodList {
		names = append(names, []byte(m))
	}
	// A: case variants
	var offs []int64
	var tot int64
	for _, n := range names {
		offs = append(offs, tot)
		letters := 0
		for _, c := range n {
			if (c >= 'a' && c <= 'z') || (c >= 'A' && c <= 'Z') {
				letters++
			}
		}
		tot += int64(1) << uint(letters)
	}
	offs = append(offs, tot)
	st := r.Stage("case-variants", tot, func(w *core.Worker, idx int64) {
		i := 0
		for idx >= offs[i+1] {
			i++
		}
		mask := idx - offs[i]
		nm := append([]byte(nil), names[i]...)
		bit := uint(0)
		for j, c := range nm {
			lc := c | 0x20
			if lc >= 'a' && lc <= 'z' {
				if mask>>bit&1 == 1 {
					nm[j] = lc &^ 0x20
				} else {
					nm[j] = lc
				}
				bit++
			}
		}
		classify(w, nm, true)
		w.NontrivialEnum()
		if idx%100003 == 7 {
			w.Sample("case-variants", string(nm))
		}
	})
	st.Exhaustive = true
	st.Space = "all 2^letters case variants of the 19 header names and 14 method names"
	// B: short names
	st = r.Stage("short-names", 1+256+65536+128*128*128, func(w *core.Worker, idx int64) {
		var nm []byte
		switch {
		case idx == 0:
			nm = []byte{}
		case idx < 257:
			nm = []byte{byte(idx - 1)}
		case idx < 257+65536:
			x := idx - 257
			nm = []byte{byte(x >> 8), byte(x)}
		default:
			x := idx - 257 - 65536
			nm = []byte{byte(x >> 14), byte(x >> 7 & 127), byte(x & 127)}
		}
		classify(w, nm, idx < 257+65536 || idx%7 == 0)
		if idx == 0 {
			classify(w, nil, false)
		}
		if ref.HdrType(nm) != ref.HdrOther || ref.MethodNo(nm) != ref.MOther || len(nm) <= 1 {
			w.NontrivialEnum()
		}
	})
	st.Exhaustive = true
	st.Space = "every byte string of length 0,1,2 (all 256 values) and every string of length 3 over 7-bit ASCII"
	// C: one-edit neighbours
	offs = offs[:0]
	tot = 0
	for _, n := range names {
		offs = append(offs, tot)
		tot += oneEditCount(len(n))
	}
	offs = append(offs, tot)
	st = r.Stage("one-edit-neighbours", tot*3, func(w *core.Worker, idx int64) {
		variant := idx / tot
		idx %= tot
		i := 0
		for idx >= offs[i+1] {
			i++
		}
		base := append([]byte(nil), names[i]...)
		switch variant {
		case 1: // upper case base
			base = bytes.ToUpper(base)
		case 2: // Capitalised
			base = bytes.ToLower(base)
			base[0] = base[0] &^ 0x20
		}
		nm := oneEdit(base, idx-offs[i])
		classify(w, nm, true)
		w.NontrivialEnum()
		if idx%50021 == 3 {
			w.Sample("one-edit-neighbours", core.Esc(nm))
		}
	})
	st.Exhaustive = true
	st.Space = "every substitute/insert (all 256 byte values)/delete/transpose neighbour of every table name in lower, upper and capitalised form"
	// C2: table names padded with a repeated byte (any value, 1..12 times, after or before)
	st = r.Stage("repeated-byte-padding", int64(len(names))*256*12*2, func(w *core.Worker, idx int64) {
		before := idx%2 == 1
		x := idx / 2
		k := int(x%12) + 1
		x /= 12
		c := byte(x % 256)
		base := names[x/256]
		pad := bytes.Repeat([]byte{c}, k)
		var nm []byte
		if before {
			nm = append(append(nm, pad...), base...)
		} else {
			nm = append(append(nm, base...), pad...)
		}
		classify(w, nm, idx%5 == 0)
		w.NontrivialEnum()
	})
	st.Exhaustive = true
	st.Space = "every table name / method followed or preceded by 1..12 copies of every byte value 0..255"
	// C3: long same-byte / random suffixes of "round" lengths (a lookup that drops the length check
	// or hashes len modulo a power of two only shows for suffixes of 16, 32, 64 ... bytes)
	longLens := []int{13, 15, 16, 17, 28, 31, 32, 33, 36, 60, 63, 64, 65, 96, 128, 252, 255, 256, 257,
		508, 511, 512, 513, 768, 1024, 4096, 32768, 65520, 65536, 65537, 131072, 196608}
	st = r.Stage("long-suffixes", int64(len(names)*len(longLens)*8), func(w *core.Worker, idx int64) {
		rr := core.NewRand(r.Seed, 0xC16, 7, uint64(idx))
		variant := int(idx % 8)
		x := idx / 8
		k := longLens[x%int64(len(longLens))]
		base := append([]byte(nil), names[x/int64(len(longLens))]...)
		if variant&1 == 1 {
			base = bytes.ToUpper(base)
		}
		var suf []byte
		switch variant / 2 {
		case 0:
			suf = bytes.Repeat([]byte{"-x\x00 "[rr.Intn(4)]}, k)
		case 1:
			suf = rr.Bytes(k, []byte("abcdefghijklmnopqrstuvwxyz-"))
		case 2:
			suf = append([]byte("-"), rr.Bytes(k-1, []byte("ABCXYZabcxyz0189-_."))...)
		default:
			suf = rr.RawBytes(k)
		}
		if k >= 65536 && variant/2 != 1 {
			// exact multiples of 2^16 longer than a table name, made of name characters
			suf = rr.Bytes(k, []byte("abcdefghijklmnopqrstuvwxyz-"))
		}
		nm := append(base, suf...)
		// (the parser path only for lines inside the 65,535-byte addressing limit)
		classify(w, nm, variant != 6 && len(nm) < 65000)
		w.NontrivialEnum()
	})
	st.Space = "every table name / method (lower and upper case) + a suffix of 13..257, 508..513, 768, 1024, 4096, 32768, 65520 bytes and of exactly 1, 2, 3 x 65536 (+1) bytes (same byte, random letters, random bytes)"
	// C4: Unicode case-fold lookalikes: 's' -> U+017F, 'k' -> U+212A in every subset of positions
	type look struct{ name []byte }
	var looks []look
	for _, n := range names {
		var pos []int
		for i, c := range n {
			if c|0x20 == 's' || c|0x20 == 'k' {
				pos = append(pos, i)
			}
		}
		for mask := 1; mask < 1<<uint(len(pos)) && mask < 64; mask++ {
			var o []byte
			pi := 0
			for i, c := range n {
				if pi < len(pos) && pos[pi] == i {
					if mask>>uint(pi)&1 == 1 {
						if c|0x20 == 's' {
							o = append(o, 0xc5, 0xbf)
						} else {
							o = append(o, 0xe2, 0x84, 0xaa)
						}
						pi++
						continue
					}
					pi++
				}
				o = append(o, c)
			}
			looks = append(looks, look{o})
		}
	}
	st = r.Stage("unicode-fold-lookalikes", int64(len(looks)), func(w *core.Worker, idx int64) {
		classify(w, looks[idx].name, true)
		w.NontrivialEnum()
	})
	st.Exhaustive = true
	st.Space = "table names with 's'/'k' replaced by U+017F / U+212A (they fold to s / k under Unicode simple folding) in every subset of positions"
	// C5: real-world SIP header names that are NOT in the table
	st = r.Stage("other-registered-header-names", int64(len(otherSIPHeaders))*4, func(w *core.Worker, idx int64) {
		n := []byte(otherSIPHeaders[idx/4])
		switch idx % 4 {
		case 1:
			n = bytes.ToLower(n)
		case 2:
			n = bytes.ToUpper(n)
		case 3:
			for i := range n {
				if i%2 == 0 {
					n[i] |= 0x20
				}
			}
		}
		if ref.HdrType(n) != ref.HdrOther {
			return
		}
		classify(w, n, true)
		w.NontrivialEnum()
	})
	st.Exhaustive = true
	st.Space = fmt.Sprintf("%d header names registered for SIP that are not in the table (and their compact forms), in 4 letter cases", len(otherSIPHeaders))
	// D: 8-bit samples of length 3 and random long names
	r.Stage("random-names", r.Pick(2000000, 300000000), func(w *core.Worker, idx int64) {
		rr := core.NewRand(r.Seed, 0xC16, 4, uint64(idx))
		var nm []byte
		switch rr.Intn(4) {
		case 0:
			nm = rr.RawBytes(3)
		case 1:
			nm = rr.RawBytes(rr.Range(4, 40))
		case 2:
			nm = rr.Bytes(rr.Range(1, 24), []byte("abcdefghijklmnopqrstuvwxyzABCDEFGHIJKLMNOPQRSTUVWXYZ-"))
		default:
			// table name with a random suffix/prefix (same first char and same length mod 4 as members)
			b := names[rr.Intn(len(names))]
			nm = append(append([]byte(nil), b...), rr.Bytes(rr.Intn(3)*4, []byte("abcXYZ-"))...)
			if rr.Bool() && len(nm) > 1 {
				nm[1+rr.Intn(len(nm)-1)] ^= 0x20
			}
		}
		classify(w, nm, true)
		w.Nontrivial(core.HashBytes(nm))
	})
	// E: method number <-> name round trip
	st = r.Stage("method-roundtrip", 256, func(w *core.Worker, idx int64) {
		m := sipsp.SIPMethod(idx)
		var nm []byte
		var back sipsp.SIPMethod
		pan, pmsg, _ := core.Guard(func() {
			nm = m.Name()
			if len(nm) > 0 {
				back = sipsp.GetMethodNo(nm)
			}
			_ = m.String()
		})
		w.Eval(1)
		if pan {
			w.Fail("name-panic", func() *core.Violation {
				return core.V(fmt.Sprintf("SIPMethod(%d).Name() panicked: %s", idx, pmsg), nil, nil)
			})
			return
		}
		if idx >= 1 && idx <= 14 {
			if string(nm) != ref.MethodList[idx-1] || back != m {
				w.Fail("roundtrip", func() *core.Violation {
					return core.V(fmt.Sprintf("SIPMethod(%d): Name()=%q (table %q), GetMethodNo(Name())=%d", idx, nm, ref.MethodList[idx-1], back), nil, nil)
				})
			}
		}
		w.NontrivialEnum()
	})
	st.Exhaustive = true
	st.Space = "SIPMethod values 0..255"
	// the byte slices handed out by Name() are the caller's to append to: doing so must not change
	// what any lookup returns afterwards (names must not sit in shared storage with spare capacity)
	st = r.Stage("append-to-returned-names", 1, func(w *core.Worker, idx int64) {
		var what string
		pan, pmsg, _ := core.Guard(func() {
			for m := 1; m <= len(ref.MethodList); m++ {
				x := append(sipsp.SIPMethod(m).Name(), " sip:user@example.org SIP/2.0\r\n"...)
				_ = x
			}
			for m := 1; m <= len(ref.MethodList); m++ {
				nm := sipsp.SIPMethod(m).Name()
				var fl sipsp.PFLine
				line := []byte(ref.MethodList[m-1] + " sip:a@b SIP/2.0\r\nX: y\r\n\r\n")
				_, e := sipsp.ParseFLine(line, 0, &fl)
				if string(nm) != ref.MethodList[m-1] || int(sipsp.GetMethodNo([]byte(ref.MethodList[m-1]))) != m || e != sipsp.ErrHdrOk || int(fl.MethodNo) != m {
					what = fmt.Sprintf("after appending to the slices returned by Name(): SIPMethod(%d).Name()=%q, GetMethodNo(%q)=%d, ParseFLine(%q) -> %s method %d", m, nm, ref.MethodList[m-1],
						sipsp.GetMethodNo([]byte(ref.MethodList[m-1])), line, errName(e), fl.MethodNo)
					return
				}
			}
		})
		w.Eval(2 * len(ref.MethodList))
		if pan || what != "" {
			w.Fail("shared-name-storage", func() *core.Violation { return core.V(what+pmsg, nil, nil) })
		}
		w.NontrivialEnum()
	})
	st.Exhaustive = true
	st.Space = "all 14 method names: append to Name(), then every lookup again"
	r.Require("C16 table members seen", r.Counter("table_members"), 1000)
}

// ---- C20 ----

// ip4Slack: what lies between len and cap of the text handed to the search. Each variant would
// complete or extend an address if the function looked past the end of the text.
var ip4Slack = []string{"9.9.9.9.9", ".1.1.1.1", "1.1.1", "55.2.3.4", ""}

func checkIP4(w *core.Worker, s []byte) {
	// the text is handed over as a private copy whose slack (len..cap) holds digits and dots;
	// the last variant has no slack at all (capacity == length)
	{
		sl := ip4Slack[(len(s)+int(core.HashBytes(s)&7))%len(ip4Slack)]
		b := make([]byte, len(s)+len(sl))
		copy(b, s)
		copy(b[len(s):], sl)
		s = b[:len(s)]
	}
	var dst [4]byte
	for i := range dst {
		dst[i] = 0xAA
	}
	var ok bool
	var o, l int
	pan, pmsg, _ := core.Guard(func() { ok, o, l = sipsp.ContainsIP4(s, dst[:]) })
	w.Eval(1)
	if pan {
		w.Fail("panic", func() *core.Violation { return core.V("ContainsIP4 panicked: "+pmsg, s, nil) })
		return
	}
	want := ref.ContainsIP4(s)
	if ok != want {
		w.Fail("contains-verdict", func() *core.Violation {
			return core.V(fmt.Sprintf("ContainsIP4(%q) = %v but the text %s a substring of four dot-separated groups of 1-3 digits <= 255", s, ok,
				map[bool]string{true: "contains", false: "does not contain"}[want]), s, nil)
		})
		return
	}
	if ok {
		w.Inc("addresses_found")
		if o < 0 || l < 0 || o+l > len(s) {
			w.Fail("contains-span", func() *core.Violation {
				return core.V(fmt.Sprintf("ContainsIP4(%q) reports span (%d,%d) outside the text", s, o, l), s, nil)
			})
			return
		}
		g, full := ref.IP4Groups(s[o : o+l])
		if !full || g != dst {
			w.Fail("contains-span", func() *core.Violation {
				return core.V(fmt.Sprintf("ContainsIP4(%q) reports span %q and bytes %v; the span %s and its groups are %v", s, s[o:o+l], dst,
					map[bool]string{true: "is an address", false: "is not an address"}[full], g), s, nil)
			})
		}
	}
	// prefix test
	for i := range dst {
		dst[i] = 0xAA
	}
	var pok bool
	var po int
	var pe sipsp.ErrorHdr
	pan, pmsg, _ = core.Guard(func() { pok, po, pe = sipsp.IP4Prefix(s, dst[:]) })
	w.Eval(1)
	if pan {
		w.Fail("panic", func() *core.Violation { return core.V("IP4Prefix panicked: "+pmsg, s, nil) })
		return
	}
	ends := ref.IP4EndsAt(s, 0)
	if pok != (len(ends) > 0) {
		w.Fail("prefix-verdict", func() *core.Violation {
			return core.V(fmt.Sprintf("IP4Prefix(%q) = %v (offs %d, %s) but the text %s with an address", s, pok, po, errName(pe),
				map[bool]string{true: "starts", false: "does not start"}[len(ends) > 0]), s, nil)
		})
		return
	}
	if !pok {
		return
	}
	mx := 0
	for _, e := range ends {
		if e > mx {
			mx = e
		}
	}
	g, _ := ref.IP4Groups(s[:mx])
	var wantE sipsp.ErrorHdr
	switch {
	case mx == len(s):
		wantE = sipsp.ErrHdrOk
	case s[mx] >= '0' && s[mx] <= '9':
		wantE = sipsp.ErrHdrMoreValues
	default:
		wantE = sipsp.ErrHdrBadChar
	}
	if po != mx || pe != wantE || g != dst {
		w.Fail("prefix-result", func() *core.Violation {
			return core.V(fmt.Sprintf("IP4Prefix(%q) = (true, stop %d, %s, bytes %v); expected stop %d (first byte that cannot extend the address), %s, bytes %v",
				s, po, errName(pe), dst, mx, errName(wantE), g), s, nil)
		})
	}
	// a destination of another size: the bytes that fit are the leading groups, nothing else is written
	{
		var d [8]byte
		for i := range d {
			d[i] = 0xAA
		}
		dl := []int{1, 2, 3, 5, 8}[(len(s)+int(core.HashBytes(s)>>8&7))%5]
		var cok bool
		var co, cl int
		var sok bool
		panS, _, _ := core.Guard(func() {
			sok, _, _ = sipsp.IP4Prefix(s, d[:dl])
		})
		w.Eval(1)
		bad := panS || !sok
		for i := 0; i < len(d) && !bad; i++ {
			switch {
			case i < dl && i < 4:
				bad = d[i] != g[i]
			default:
				bad = d[i] != 0xAA
			}
		}
		if bad {
			w.Fail("prefix-dst-size", func() *core.Violation {
				return core.V(fmt.Sprintf("IP4Prefix(%q, dst of %d bytes) -> ok=%v panic=%v, destination array now %v; expected the first min(%d,4) groups of %v and nothing else written", s, dl, sok, panS, d, dl, g), s, nil)
			})
			return
		}
		for i := range d {
			d[i] = 0xAA
		}
		panS, _, _ = core.Guard(func() { cok, co, cl = sipsp.ContainsIP4(s, d[:dl]) })
		w.Eval(1)
		if !panS && cok && co >= 0 && cl >= 0 && co+cl <= len(s) {
			cg, full := ref.IP4Groups(s[co : co+cl])
			bad = !full
			for i := 0; i < len(d) && !bad; i++ {
				switch {
				case i < dl && i < 4:
					bad = d[i] != cg[i]
				default:
					bad = d[i] != 0xAA
				}
			}
			if bad {
				w.Fail("contains-dst-size", func() *core.Violation {
					return core.V(fmt.Sprintf("ContainsIP4(%q, dst of %d bytes) reports span %q, destination array now %v; expected the first min(%d,4) groups %v and nothing else written", s, dl, s[co:co+cl], d, dl, cg), s, nil)
				})
				return
			}
		}
	}
	// nil destination must not change the verdict
	var nok bool
	var no int
	core.Guard(func() { nok, no, _ = sipsp.IP4Prefix(s, nil) })
	if nok != pok || no != po {
		w.Fail("prefix-nil-dst", func() *core.Violation {
			return core.V(fmt.Sprintf("IP4Prefix(%q, nil) = (%v,%d) but with a destination (%v,%d)", s, nok, no, pok, po), s, nil)
		})
	}
}

func checkCallIDFlags(w *core.Worker, s []byte) {
	var sig sipsp.StrSigId
	var ok bool
	var o, l int
	pan, _, _ := core.Guard(func() {
		sig, _ = sipsp.GetCallIDSig(s)
		ok, o, l = sipsp.ContainsIP4(s, nil)
		if !ok {
			ok, o, l = sipsp.ContainsIP6(s, nil)
		}
	})
	w.Eval(1)
	if pan {
		return
	}
	var want sipsp.StrSigId
	if ok {
		switch {
		case o == 0:
			want = sipsp.SigIPStartF
		case o+l == len(s):
			want = sipsp.SigIPEndF
		default:
			want = sipsp.SigIPMiddleF
		}
	}
	got := sig & (sipsp.SigIPStartF | sipsp.SigIPEndF | sipsp.SigIPMiddleF)
	if got != want {
		w.Fail("callid-ip-flags", func() *core.Violation {
			return core.V(fmt.Sprintf("GetCallIDSig(%q) IP position flags = %#x but the address search on the same text gives found=%v span (%d,%d) => %#x", s, got, ok, o, l, want), s, nil)
		})
	}
}

// RunC20 is the monitor for C20.
func RunC20(r *core.Run) {
	r.Rule = "case = one text; ContainsIP4 / IP4Prefix are compared with a backtracking reference matcher for d{1,3}(.d{1,3}){3}, groups <= 255: found <=> some substring matches, the reported span is a full match whose groups are the returned bytes, the prefix test is true <=> a match starts at 0, stops at the end of the longest one with OK / more-values (digit follows) / bad-char; GetCallIDSig's IP position flags must agree with the search result on the same text; enumerated stages are exhaustive over their alphabet; non-trivial = the text contains an address (or, for near-misses, contains three dots); distinct by construction / hash"
	r.Assume = []string{"any matching substring may be reported (leftmost is not demanded)"}
	alpha, L := "0125.x", 10
	if !r.Quick() {
		alpha, L = "012569.x", 11
	}
	es := NewEnum(alpha, L)
	st := r.Stage("enum", es.Size(), func(w *core.Worker, idx int64) {
		s := sc(w)
		s.buf = es.appendStr(s.buf[:0], idx)
		checkIP4(w, s.buf)
		if idx%3 == 0 {
			checkCallIDFlags(w, s.buf)
		}
		if bytes.Count(s.buf, []byte(".")) >= 3 {
			w.NontrivialEnum()
		}
		if idx%2000003 == 11 {
			w.Sample("enum", string(s.buf))
		}
	})
	st.Exhaustive = true
	st.Space = es.Desc()
	r.Stage("random-embedded", r.Pick(2000000, 300000000), func(w *core.Worker, idx int64) {
		rr := core.NewRand(r.Seed, 0xC20, 2, uint64(idx))
		var b []byte
		n := rr.Range(0, 4)
		b = append(b, rr.Bytes(rr.Intn(40), []byte("abcxyz-_@0123456789. :[]\xb0\xb5\xb9\x80\xff\x00"))...)
		for i := 0; i < n; i++ {
			if rr.Intn(5) == 0 {
				// a long run of digits directly in front of (and so part of the first group's
				// candidates of) the next address
				b = append(b, rr.Bytes([]int{8, 9, 10, 17, 18, 19, 20, 21, 30, 40}[rr.Intn(10)], []byte("0123456789"))...)
			}
			switch rr.Intn(4) {
			case 0:
				b = append(b, fmt.Sprintf("%d.%d.%d.%d", rr.Intn(256), rr.Intn(256), rr.Intn(256), rr.Intn(256))...)
			case 1:
				b = append(b, fmt.Sprintf("%d.%d.%d.%d", rr.Intn(400), rr.Intn(300), rr.Intn(1000), rr.Intn(260))...)
			case 2:
				b = append(b, fmt.Sprintf("%03d.%02d.%d.%d", rr.Intn(256), rr.Intn(100), rr.Intn(256), rr.Intn(2560))...)
			default:
				b = append(b, fmt.Sprintf("%d.%d..%d.%d.%d", rr.Intn(256), rr.Intn(256), rr.Intn(256), rr.Intn(256), rr.Intn(256))...)
			}
			b = append(b, rr.Bytes(rr.Intn(30), []byte("abcxyz-_@0123456789. \xb1\xb7\xae\xfe\x00"))...)
		}
		if len(b) > 300 {
			b = b[:300]
		}
		checkIP4(w, b)
		checkCallIDFlags(w, b)
		w.Nontrivial(core.HashBytes(b))
		if w.WantSample("random-embedded") {
			w.Sample("random-embedded", string(b))
		}
	})
	// 8-bit bytes next to / instead of digits (exhaustive over a small alphabet)
	es8 := NewEnum("1.\xb2\x80x\x00", int(r.Pick(8, 9)))
	st = r.Stage("enum-8bit", es8.Size(), func(w *core.Worker, idx int64) {
		s := sc(w)
		s.buf = es8.appendStr(s.buf[:0], idx)
		checkIP4(w, s.buf)
		if bytes.Count(s.buf, []byte(".")) >= 3 {
			w.NontrivialEnum()
		}
	})
	st.Exhaustive = true
	st.Space = es8.Desc()
	// many dots / long texts: the address sits behind hundreds of dotted non-address tokens,
	// or at a large offset of a text longer than 64 KiB
	r.Stage("many-dots-and-long-texts", r.Pick(3000, 60000), func(w *core.Worker, idx int64) {
		rr := core.NewRand(r.Seed, 0xC20, 4, uint64(idx))
		var b []byte
		switch idx % 3 {
		case 0: // k dotted junk tokens then an address
			k := []int{250, 252, 253, 254, 255, 256, 257, 258, 509, 510, 511, 512, 513, 765, 1021}[rr.Intn(15)] + rr.Intn(2)*rr.Intn(4)
			for i := 0; i < k; i++ {
				b = append(b, []string{"a.", "x9.", "zz.", "-."}[rr.Intn(4)]...)
			}
			b = append(b, "q"...)
			if rr.Intn(4) > 0 {
				b = append(b, fmt.Sprintf("%d.%d.%d.%d", rr.Intn(256), rr.Intn(256), rr.Intn(256), rr.Intn(256))...)
			}
			b = append(b, "tail"...)
		case 1: // address at a large offset
			n := []int{65530, 65536, 65537, 70001, 131072, 131089, 140000}[rr.Intn(7)]
			b = make([]byte, 0, n+40)
			for len(b) < n {
				b = append(b, "abcdefgh-xyz_"[len(b)%13])
			}
			b = append(b, fmt.Sprintf("%d.%d.%d.%d", rr.Intn(256), rr.Intn(256), rr.Intn(256), rr.Intn(256))...)
			b = append(b, "-end"...)
		default: // long digit/dot soup
			b = rr.Bytes(rr.Range(300, 3000), []byte("0123456789..x"))
		}
		checkIP4(w, b)
		w.Nontrivial(core.HashBytes(b))
	})
	r.Require("C20 texts with an address", r.Counter("addresses_found"), 10000)
}

// otherSIPHeaders: header field names from the IANA SIP registry (and common extensions)
// that the library does not list: all must classify as "other".
var otherSIPHeaders = []string{"Accept", "Accept-Contact", "a", "Accept-Encoding", "Accept-Language", "Accept-Resource-Priority", "Alert-Info", "Allow", "Allow-Events", "u",
	"Answer-Mode", "Authentication-Info", "Authorization", "Call-Info", "Cellular-Network-Info", "Content-Disposition", "Content-Encoding", "e", "Content-Language",
	"Content-Type", "c", "Date", "Error-Info", "Event", "o", "Feature-Caps", "Flow-Timer", "Geolocation", "Geolocation-Error", "Geolocation-Routing", "Hide", "History-Info",
	"Identity", "y", "Identity-Info", "n", "Info-Package", "In-Reply-To", "Join", "Max-Breadth", "MIME-Version", "Min-Expires", "Min-SE", "Organization",
	"P-Access-Network-Info", "P-Answer-State", "P-Asserted-Service", "P-Associated-URI", "P-Called-Party-ID", "P-Charging-Function-Addresses", "P-Charging-Vector",
	"P-DCS-Trace-Party-ID", "P-Early-Media", "P-Media-Authorization", "P-Preferred-Identity", "P-Preferred-Service", "P-Private-Network-Indication", "P-Profile-Key",
	"P-Refused-URI-List", "P-Served-User", "P-User-Database", "P-Visited-Network-ID", "Path", "Permission-Missing", "Policy-Contact", "Policy-ID", "Priority",
	"Priv-Answer-Mode", "Privacy", "Proxy-Authenticate", "Proxy-Authorization", "Proxy-Require", "RAck", "Reason", "Reason-Phrase", "Recv-Info", "Refer-Events-At",
	"Refer-Sub", "Refer-To", "r", "Referred-By", "b", "Reject-Contact", "j", "Relayed-Charge", "Replaces", "Reply-To", "Request-Disposition", "d", "Require",
	"Resource-Priority", "Resource-Share", "Response-Key", "Restoration-Info", "Retry-After", "RSeq", "Security-Client", "Security-Server", "Security-Verify", "Server",
	"Service-Interact-Info", "Service-Route", "Session-Expires", "x", "Session-ID", "SIP-ETag", "SIP-If-Match", "Subject", "s", "Subscription-State", "Supported", "k",
	"Suppress-If-Match", "Target-Dialog", "Timestamp", "Trigger-Consent", "Unsupported", "User-to-User", "Warning", "WWW-Authenticate", "Diversion", "Remote-Party-ID",
	"X-Forwarded-For", "Contact-Info", "From-Tag", "To-Tag", "Via-Branch", "Route-Set", "Expires-In", "CSeq-Number", "Call-ID-Ref", "Content-Length-Hint", "P-Asserted-Identity-Info"}
