package mon

import (
	"fmt"
	"strings"

	"github.com/intuitivelabs/sipsp"

	"verif/harness/core"
	"verif/harness/gen"
	"verif/harness/view"
)

var junkLast = []byte("\r\n \t\":;,<>\x00aZ9=@\\&?")

// shiftBuf builds junk||x with |junk| = k into dst.
func shiftBuf(rr *core.Rand, dst []byte, x []byte, k int) []byte {
	if cap(dst) < k+len(x) {
		dst = make([]byte, 0, k+len(x)+64)
	}
	dst = dst[:k+len(x)]
	// cheap deterministic junk; the bytes next to the text are hostile ones
	seed := byte(rr.U64())
	for i := 0; i < k; i++ {
		dst[i] = junkPool[(int(seed)+i*7)%len(junkPool)]
	}
	for i := k - 1; i >= 0 && i >= k-3; i-- {
		dst[i] = junkLast[rr.Intn(len(junkLast))]
	}
	copy(dst[k:], x)
	return dst
}

// CheckShift is the C11 oracle: parse x at offset 0 and junk||x at offset k
// along the same (shifted) cut schedule; every verdict must be equal, every
// offset and field shifted by exactly k, everything else unchanged.
func CheckShift(w *core.Worker, c *Case, shifted []byte, k int, cuts []int) (definite bool) {
	s := sc(w)
	B := c.P.New(c.Cfg)
	S := c.P.New(c.Cfg)
	ob, os := 0, k
	for _, cut := range cuts {
		nb, eb, panb, _ := safeCall(B, s.exactPrefix(c.Buf[:cut]), ob)
		ns, es, pans, stk := safeCall(S, s.isoPrefix(shifted[:k+cut], cut), os)
		w.Eval(1)
		if panb != "" || pans != "" {
			if panb != "" && pans != "" {
				w.Inc("both_panicked(left to C04)")
				return
			}
			w.Fail("panic-one-side/"+c.P.Name, func() *core.Violation {
				d := c.detail()
				d["k"] = k
				v := core.V(fmt.Sprintf("%s: text at offset 0 panicked=%q, same text at offset %d panicked=%q", c.P.Name, panb, k, pans), c.Buf, d)
				v.Stack = stk
				return v
			})
			return
		}
		if eb != es || ns-k != nb {
			cutc := cut
			w.Fail("verdict/"+c.P.Name, func() *core.Violation {
				d := c.detail()
				d["k"] = k
				d["prefix_len"] = cutc
				d["junk_tail"] = core.Esc(shifted[max0(k-4):k])
				return core.V(fmt.Sprintf("%s: text at offset 0 gives (offs=%d, %s); the same text at offset %d gives (offs=%d = %d+%d, %s)",
					c.P.Name, nb, errName(eb), k, ns, k, ns-k, errName(es)), c.Buf, d)
			})
			return
		}
		if eb != sipsp.ErrHdrMoreBytes {
			definite = true
			pb := viewOf(&s.v1, B, cut, view.MsgOpt{}, false)
			s.v2.Reset(k + cut)
			s.v2.Shift = k
			s.v2.Start = k
			ps, _, _ := core.Guard(func() { S.View(&s.v2, view.MsgOpt{}) })
			if pb != "" || ps || !view.Equal(&s.v1, &s.v2) {
				cutc := cut
				w.Fail("view/"+c.P.Name, func() *core.Violation {
					viewOf(&s.v1, B, cutc, view.MsgOpt{}, true)
					s.v2.Reset(k + cutc)
					s.v2.Lab = true
					s.v2.Shift = k
					s.v2.Start = k
					core.Guard(func() { S.View(&s.v2, view.MsgOpt{}) })
					d := c.detail()
					d["k"] = k
					d["junk_tail"] = core.Esc(shifted[max0(k-4):k])
					return core.V(fmt.Sprintf("%s: result for the text at offset %d is not the result at offset 0 shifted by %d: %s (left: offset 0, right: offset %d after shifting back)",
						c.P.Name, k, k, view.Diff(&s.v1, &s.v2), k), c.Buf, d)
				})
			}
			return
		}
		ob, os = nb, ns
	}
	return
}

func max0(x int) int {
	if x < 0 {
		return 0
	}
	return x
}

func pickK(rr *core.Rand, n int) int {
	ks := []int{1, 2, 3, 13, 255, 256, 257, 4096, 65535 - n, 65534 - n, 60000}
	k := ks[rr.Intn(len(ks))]
	if rr.Intn(3) == 0 {
		k = rr.Range(1, 2000)
	}
	if k+n > 65535 {
		k = 65535 - n
	}
	if k < 1 {
		k = 1
	}
	return k
}

// RunC11 is the monitor for C11.
func RunC11(r *core.Run) {
	r.Rule = "case = (parser, configuration, text x, junk prefix of length k, cut schedule); x is parsed at offset 0 and junk||x at offset k along the same schedule shifted by k; verdicts must be equal, returned offsets and every reported field must differ by exactly k (a never-set (0,0) field stays (0,0)), numbers/types/flags/counts must be equal; k in {1,2,3,13,255,256,257,4096,60000,65535-|x|,65534-|x|} and random; non-trivial = a definitive verdict was reached and compared; distinct by hash(x,k,configuration). Relocation of parsed URIs is part of C18 and repeated here in a small stage"
	r.Assume = []string{"texts end at or before the 65,535-byte addressing limit"}
	type wk struct{ big []byte }
	n := r.Pick(600000, 40000000)
	r.Stage("long-inputs", n, func(w *core.Worker, idx int64) {
		rr := core.NewRand(r.Seed, 0xC11, 1, uint64(idx))
		p := Parsers[rr.Intn(len(Parsers))]
		if rr.Intn(3) == 0 {
			p = Parsers[0]
		}
		cfg := randCfg(rr, p)
		x := longValue(rr, p, &cfg)
		if rr.Intn(6) == 0 {
			x = gen.Bytes(rr, 150)
		}
		k := pickK(rr, len(x))
		s := sc(w)
		s.buf = shiftBuf(rr, s.buf, x, k)
		c := &Case{P: p, Cfg: cfg, Buf: x}
		def := false
		s.cuts = append(s.cuts[:0], len(x))
		def = CheckShift(w, c, s.buf, k, s.cuts) || def
		s.cuts = CutsRandom(s.cuts, rr, 0, len(x), rr.Range(1, 6))
		def = CheckShift(w, c, s.buf, k, s.cuts) || def
		if len(x) <= 120 {
			s.cuts = CutsEveryPrefix(s.cuts, 0, len(x))
			def = CheckShift(w, c, s.buf, k, s.cuts) || def
		}
		if def {
			w.Nontrivial(core.HashBytes(x) ^ uint64(k)<<44 ^ core.HashStr(p.Name) ^ uint64(cfg.Flags)<<20)
			w.Inc("nontrivial_cases")
		}
		w.Inc(fmt.Sprintf("k-class/%s", kClass(k, len(x))))
		if w.WantSample("long-inputs") {
			w.Sample("long-inputs", map[string]any{"parser": p.Name, "x": core.Esc(x), "k": k, "junk_tail": core.Esc(s.buf[max0(k-3):k])})
		}
	})
	// enumerated strings of every family, k = 1 and 3, one-shot and every prefix
	for _, f := range EnumFamilies {
		f := f
		L := f.LQ - 1
		if !r.Quick() {
			L = f.LT - 1
		}
		es := NewEnum(f.Alpha, L)
		var slots []enumSlot
		for _, sl := range enumPlan(f) {
			if !sl.junk {
				slots = append(slots, sl)
			}
		}
		size := es.Size()
		label := "enum/" + f.Name
		st := r.Stage(label, size*int64(len(slots)), func(w *core.Worker, idx int64) {
			sl := &slots[idx/size]
			s := sc(w)
			x := append([]byte(nil), sl.prefix...)
			x = es.appendStr(x, idx%size)
			x = append(x, sl.suffix...)
			rr := core.NewRand(r.Seed, 0xC11, 2, uint64(idx))
			c := &Case{P: sl.p, Cfg: sl.cfg, Buf: x}
			def := false
			for _, k := range []int{1, 3} {
				s.buf = shiftBuf(rr, s.buf, x, k)
				s.cuts = append(s.cuts[:0], len(x))
				def = CheckShift(w, c, s.buf, k, s.cuts) || def
				s.cuts = CutsEveryPrefix(s.cuts, len(sl.prefix), len(x))
				def = CheckShift(w, c, s.buf, k, s.cuts) || def
			}
			if def {
				w.NontrivialEnum()
				w.Inc("nontrivial_cases")
			}
		})
		st.Exhaustive = true
		st.Space = es.Desc() + fmt.Sprintf(" wrapped in %q/%q, parsers %v, k in {1,3}, one-shot and every prefix", f.Prefixes, f.Suffixes, f.Parsers)
	}
	// name-addr values whose parameters carry errors (ParamErr / ErrOffs are positional too)
	r.Stage("name-addr-param-errors", r.Pick(60000, 6000000), func(w *core.Worker, idx int64) {
		rr := core.NewRand(r.Seed, 0xC11, 4, uint64(idx))
		digits := func(n int) string { return string(rr.Bytes(n, []byte("0123456789"))) }
		bad := []string{";q=" + digits(rr.Range(19, 30)), ";q=1.5", ";q=0.12345", ";q=2", ";q=" + digits(21) + ".5", ";q=0." + digits(25), ";expires=" + digits(rr.Range(18, 40)),
			";q=1." + digits(3), ";expires=12ab", ";q=x", ";q=", ";=5", ";q=18446744073709551617"}[rr.Intn(13)]
		x := []byte([]string{" <sip:a@b>", "\"n\" <sip:c>;x=1", "sip:d"}[rr.Intn(3)] + []string{"", ";tag=t1"}[rr.Intn(2)] + bad + []string{"", ";y=2", " ; lr"}[rr.Intn(3)] + "\r\nX")
		p := ParserByName([]string{"ParseFromVal", "ParseOneContact", "ParseAllContactValues", "ParseHdrLine+PHdrVals"}[rr.Intn(4)])
		if p.Group == "hdrpv" {
			x = append([]byte([]string{"f:", "m:", "Contact :", "t:"}[rr.Intn(4)]), x...)
		}
		k := pickK(rr, len(x))
		s := sc(w)
		s.buf = shiftBuf(rr, s.buf, x, k)
		c := &Case{P: p, Cfg: Cfg{HdrCap: -1, ContactCap: 2, ParamCap: 4}, Buf: x}
		s.cuts = append(s.cuts[:0], len(x))
		def := CheckShift(w, c, s.buf, k, s.cuts)
		s.cuts = CutsRandom(s.cuts, rr, 0, len(x), rr.Range(1, 4))
		def = CheckShift(w, c, s.buf, k, s.cuts) || def
		if def {
			w.Nontrivial(core.HashBytes(x) ^ uint64(k)<<44)
			w.Inc("nontrivial_cases")
		}
	})
	// relocation of parsed URIs
	r.Stage("uri-relocation", r.Pick(200000, 12000000), func(w *core.Worker, idx int64) {
		rr := core.NewRand(r.Seed, 0xC11, 3, uint64(idx))
		u := []byte(gen.URI(rr).String())
		switch rr.Intn(6) {
		case 0:
			u = append([]byte("sip:"), rr.Bytes(rr.Range(1, 10), []byte(":@;?&=[].a1"))...)
		case 1:
			u = append([]byte([]string{"tel:", "TEL:", "sips:"}[rr.Intn(3)]), rr.Bytes(rr.Range(1, 10), []byte(":;?=.a1+-"))...)
		case 2:
			u = []byte([]string{"tel:911:5", "tel:+1-201-555-0123:5060;phone-context=x", "tel:1;ext=2", "tel:5?h=1"}[rr.Intn(4)])
		}
		t := pickK(rr, len(u))
		if msg := relocateCheck(u, t, len(u)+rr.Intn(3), rr); msg != "" {
			w.Fail("relocation", func() *core.Violation {
				return core.V(msg, u, map[string]any{"target": t})
			})
		}
		w.Eval(1)
	})
	// functions with TWO (buffer, offset) operands: each text may sit anywhere in its own buffer
	cmpNames := []string{"transport", "user", "ttl", "maddr", "method", "lr", "x", "y-z", "Foo", "p1", "subject", "priority", "to"}
	cmpVals := []string{"", "1", "tcp", "UDP", "phone", "a.b", "10.0.0.1", "Urgent", "%20x"}
	r.Stage("two-operand-comparisons", r.Pick(300000, 20000000), func(w *core.Worker, idx int64) {
		rr := core.NewRand(r.Seed, 0xC11, 4, uint64(idx))
		hdrs := rr.Bool()
		sep := ";"
		if hdrs {
			sep = "&"
		}
		perm := rr.Perm(len(cmpNames))
		k := rr.Range(1, 5)
		var ia, ib []string
		for i := 0; i < k; i++ {
			nm, v := cmpNames[perm[i]], cmpVals[rr.Intn(len(cmpVals))]
			it := nm
			if v != "" || hdrs {
				it += "=" + v
			}
			ia = append(ia, it)
			it2 := gen.RandCase(rr, nm)
			if v != "" || hdrs {
				it2 += "=" + v
			}
			ib = append(ib, it2)
		}
		switch rr.Intn(4) {
		case 0: // same list, other order
			for i := len(ib) - 1; i > 0; i-- {
				j := rr.Intn(i + 1)
				ib[i], ib[j] = ib[j], ib[i]
			}
		case 1: // one value differs
			ib[rr.Intn(len(ib))] += "x"
		case 2: // one entry missing
			ib = ib[:len(ib)-1]
		}
		a, b := []byte(strings.Join(ia, sep)), []byte(strings.Join(ib, sep))
		fn := sipsp.URIParamsEq
		name := "URIParamsEq"
		if hdrs {
			fn, name = sipsp.URIHdrsEq, "URIHdrsEq"
		}
		var eq0, eq1 bool
		var e0, e1 sipsp.ErrorHdr
		k1, k2 := rr.Intn(40), rr.Intn(40)
		if rr.Intn(4) == 0 {
			k1 = 0
		}
		s := sc(w)
		b1 := append([]byte(nil), shiftBuf(rr, s.buf, a, k1)...)
		b2 := append([]byte(nil), shiftBuf(rr, s.buf, b, k2)...)
		pan, pmsg, _ := core.Guard(func() {
			eq0, e0 = fn(a, 0, b, 0)
			eq1, e1 = fn(b1, k1, b2, k2)
		})
		w.Eval(2)
		if pan || eq0 != eq1 || e0 != e1 {
			w.Fail("two-operand/"+name, func() *core.Violation {
				return core.V(fmt.Sprintf("%s(%q,0,%q,0) = (%v,%s) but with the first text at offset %d and the second at offset %d of their buffers: (%v,%s) %s",
					name, a, b, eq0, errName(e0), k1, k2, eq1, errName(e1), pmsg), b1, map[string]any{"second_buffer": core.Esc(b2), "offs1": k1, "offs2": k2})
			})
			return
		}
		if k1 != k2 {
			w.Nontrivial(core.HashBytes(a) ^ core.HashBytes(b)<<1 ^ uint64(k1)<<50 ^ uint64(k2)<<56)
		}
	})
	// the message signature is computed from fields of a message that may start anywhere
	r.Stage("signature-at-offset", r.Pick(60000, 4000000), func(w *core.Worker, idx int64) {
		rr := core.NewRand(r.Seed, 0xC11, 5, uint64(idx))
		m := gen.Msg(rr, gen.MsgOpts{MinHdrs: 4, MaxHdrs: 14, Request: 1})
		k := pickK(rr, len(m.Raw))
		if k == 0 {
			k = 1 + rr.Intn(30)
		}
		s := sc(w)
		s.buf = shiftBuf(rr, s.buf, m.Raw, k)
		var m0, mk sipsp.PSIPMsg
		var s0, sk sipsp.MsgSig
		var e0, ek, p0, pk sipsp.ErrorHdr
		pan, pmsg, _ := core.Guard(func() {
			m0.Init(nil, nil, nil)
			mk.Init(nil, nil, nil)
			_, p0 = sipsp.ParseSIPMsg(m.Raw, 0, &m0, 0)
			_, pk = sipsp.ParseSIPMsg(s.buf, k, &mk, 0)
			if p0 == sipsp.ErrHdrOk && pk == sipsp.ErrHdrOk {
				s0, e0 = sipsp.GetMsgSig(&m0)
				sk, ek = sipsp.GetMsgSig(&mk)
			}
		})
		w.Eval(2)
		if p0 != sipsp.ErrHdrOk || pk != sipsp.ErrHdrOk {
			return // verdict differences are the other stages' business
		}
		if pan || e0 != ek || s0 != sk {
			buf := append([]byte(nil), s.buf...)
			w.Fail("signature-at-offset", func() *core.Violation {
				return core.V(fmt.Sprintf("GetMsgSig of the message parsed at offset 0: %q (%s); of the same message parsed at offset %d: %q (%s) %s", s0.String(), errName(e0), k, sk.String(), errName(ek), pmsg), buf, map[string]any{"k": k})
			})
			return
		}
		w.Nontrivial(core.HashBytes(m.Raw) ^ uint64(k)<<48)
	})
	r.Require("C11 non-trivial cases", r.Counter("nontrivial_cases"), 10000)
}

func kClass(k, n int) string {
	switch {
	case k+n == 65535:
		return "ends-at-65535"
	case k+n == 65534:
		return "ends-at-65534"
	case k >= 4096:
		return ">=4096"
	case k >= 255:
		return "255..4095"
	case k >= 13:
		return "13..254"
	}
	return "1..12"
}

// relocateCheck parses u, relocates the result onto a copy of u at offset t
// (span length span >= len(u)) and checks every component denotes the same
// bytes. Returns "" when fine or when u is not accepted.
func relocateCheck(u []byte, t, span int, rr *core.Rand) string {
	var p sipsp.PsipURI
	if e, _ := sipsp.ParseURI(u, &p); e != sipsp.NoURIErr {
		return ""
	}
	if t+span > 65535 {
		span = 65535 - t
		if span < len(u) {
			return ""
		}
	}
	// a region that is too short is refused wherever it starts (also where the URI already is)
	if len(u) > 0 {
		for _, t0 := range []int{0, t} {
			short := len(u) - 1 - rr.Intn(minInt(len(u), 6))
			if short < 0 || t0+short > 65535 {
				continue
			}
			q0 := p
			var ok0 bool
			if pan, pmsg, _ := core.Guard(func() { ok0 = q0.AdjustOffs(sipsp.PField{Offs: sipsp.OffsT(t0), Len: sipsp.OffsT(short)}) }); pan {
				return "AdjustOffs panicked: " + pmsg
			}
			if ok0 || q0 != p {
				return fmt.Sprintf("AdjustOffs({%d,%d}) on a URI of %d bytes: returned %v, structure changed: %v", t0, short, len(u), ok0, q0 != p)
			}
		}
	}
	// truncated URI: its length is the short form; a region of exactly that length must do
	if p.Params.Len > 0 || p.Headers.Len > 0 {
		tr := p
		tr.Truncate()
		// extent of what remains: scheme .. end of the last PRESENT component before the
		// parameters (a present-but-empty port still occupies its ':'), from the original parse
		ext := 0
		for _, f := range []sipsp.PField{p.Scheme, p.User, p.Pass, p.Host, p.Port} {
			if (f.Offs != 0 || f.Len != 0) && int(f.Offs)+int(f.Len) > ext {
				ext = int(f.Offs) + int(f.Len)
			}
		}
		l := sipsp.PField{Offs: 0, Len: sipsp.OffsT(ext)}
		if int(l.Len) > 0 && t+int(l.Len) <= 65535 {
			var okT bool
			before := tr
			if pan, pmsg, _ := core.Guard(func() { okT = tr.AdjustOffs(sipsp.PField{Offs: sipsp.OffsT(t), Len: l.Len}) }); pan {
				return "AdjustOffs after Truncate panicked: " + pmsg
			}
			if !okT {
				return fmt.Sprintf("URI truncated to %d bytes cannot be relocated into a region of %d bytes at %d", l.Len, l.Len, t)
			}
			for i, pr := range [][2]sipsp.PField{{before.Scheme, tr.Scheme}, {before.User, tr.User}, {before.Pass, tr.Pass}, {before.Host, tr.Host}, {before.Port, tr.Port}} {
				if (pr[0].Offs != 0 || pr[0].Len != 0) && (int(pr[1].Offs) != int(pr[0].Offs)+t || pr[1].Len != pr[0].Len) {
					return fmt.Sprintf("truncated URI relocated to %d: component %d is %v, expected offset %d", t, i, pr[1], int(pr[0].Offs)+t)
				}
			}
		}
	}
	q := p
	var ok bool
	pan, pmsg, _ := core.Guard(func() { ok = q.AdjustOffs(sipsp.PField{Offs: sipsp.OffsT(t), Len: sipsp.OffsT(span)}) })
	if pan {
		return "AdjustOffs panicked: " + pmsg
	}
	if !ok {
		return fmt.Sprintf("AdjustOffs refused a span of %d bytes at %d for a URI of %d bytes", span, t, len(u))
	}
	if q.URIType != p.URIType || q.PortNo != p.PortNo {
		return "AdjustOffs changed URIType/PortNo"
	}
	of := []sipsp.PField{p.Scheme, p.User, p.Pass, p.Host, p.Port, p.Params, p.Headers}
	nf := []sipsp.PField{q.Scheme, q.User, q.Pass, q.Host, q.Port, q.Params, q.Headers}
	names := []string{"Scheme", "User", "Pass", "Host", "Port", "Params", "Headers"}
	for i := range of {
		if of[i].Len != nf[i].Len {
			return fmt.Sprintf("%s length changed from %d to %d", names[i], of[i].Len, nf[i].Len)
		}
		if of[i].Offs == 0 && of[i].Len == 0 {
			if nf[i].Offs != 0 {
				return fmt.Sprintf("%s was never set (0,0) but is %v after the move", names[i], nf[i])
			}
			continue // never-set field stays (0,0)
		}
		// every reported field (also a present-but-empty one) is shifted by exactly t
		if int(nf[i].Offs) != int(of[i].Offs)+t {
			return fmt.Sprintf("%s %v moved to %v, expected offset %d (shift by exactly %d)", names[i], of[i], nf[i], int(of[i].Offs)+t, t)
		}
	}
	// a relocated URI is still a parsed URI: moving it once more must work the same way
	t2 := rr.Intn(65535 - len(u))
	q2 := q
	var ok2 bool
	span2 := []int{len(u), len(u) + 1, 65535 - t2, len(u) + rr.Intn(65535-t2-len(u)+1)}[rr.Intn(4)]
	pan, pmsg, _ = core.Guard(func() { ok2 = q2.AdjustOffs(sipsp.PField{Offs: sipsp.OffsT(t2), Len: sipsp.OffsT(span2)}) })
	if pan {
		return "second AdjustOffs panicked: " + pmsg
	}
	if !ok2 {
		return fmt.Sprintf("URI (len %d) relocated to %d cannot be relocated again to %d with span %d", len(u), t, t2, span2)
	}
	nf2 := []sipsp.PField{q2.Scheme, q2.User, q2.Pass, q2.Host, q2.Port, q2.Params, q2.Headers}
	for i := range of {
		if (of[i].Offs != 0 || of[i].Len != 0) && (int(nf2[i].Offs) != int(of[i].Offs)+t2 || nf2[i].Len != of[i].Len) {
			return fmt.Sprintf("after a second relocation to %d: %s is %v, expected offset %d len %d", t2, names[i], nf2[i], int(of[i].Offs)+t2, of[i].Len)
		}
	}
	return ""
}
