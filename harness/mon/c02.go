package mon

import (
	"fmt"
	"sort"
	"strconv"

	"github.com/intuitivelabs/sipsp"

	"verif/harness/core"
	"verif/harness/gen"
	"verif/harness/view"
)

// longValue generates a long (non-enumerated) input for parser p: grammar
// generated, or a mutated repository test value.
func longValue(rr *core.Rand, p *ParserDef, cfg *Cfg) []byte {
	vals := gen.RepoValues()
	mut := func(b []byte) []byte {
		if rr.Intn(100) < 35 {
			return gen.Mutate(rr, b, 3)
		}
		return b
	}
	switch p.Group {
	case "nameaddr":
		n := 1
		if p.Name != "ParseFromVal" && p.Name != "ParseNameAddrPVal(To)" {
			n = rr.Range(1, 5)
		}
		b, _ := gen.NameAddrValue(rr, n, p.Name == "ParseOneContact" || p.Name == "ParseAllContactValues", false)
		return mut(b)
	case "tok":
		pl := gen.ParamList(rr, gen.PLOptsFor(cfg.Flags, rr))
		return mut(pl.Raw)
	case "cseq":
		b := []byte(" " + strconv.FormatUint(rr.U64()%6000000000, 10) + " \r\n " + []string{"INVITE", "x", "ACK", "9a"}[rr.Intn(4)] + " \r\nX")
		return mut(b)
	case "callid":
		return mut([]byte(" \t" + string(rr.Bytes(rr.Range(1, 40), []byte("abcdef0123456789@.-_:"))) + "  \r\n \r\nX"))
	case "uint":
		return mut([]byte(" " + strconv.FormatUint(rr.U64()%20000000000, 10) + " \r\nX"))
	case "fline":
		m := gen.Msg(rr, gen.MsgOpts{MinHdrs: 1, MaxHdrs: 2})
		return mut(m.Raw)
	case "hdr", "hdrpv":
		m := gen.Msg(rr, gen.MsgOpts{MinHdrs: 1, MaxHdrs: 14, MultiNA: 50, TrailSemi: true, DupParams: true})
		return mut(m.Raw[m.FLEnd:])
	case "quoted":
		b := rr.Bytes(rr.Range(0, 60), []byte("abc \t\\\\\"xyz;,=<>"))
		return append(b, '"', 'X')
	case "msg":
		m := gen.Msg(rr, gen.MsgOpts{MinHdrs: 1, MaxHdrs: 10, MultiNA: 40, TrailSemi: true, DupParams: true})
		return mut(m.Raw)
	}
	if len(vals) > 0 {
		return mut(vals[rr.Intn(len(vals))])
	}
	return []byte("x\r\nX")
}

func randCfg(rr *core.Rand, p *ParserDef) Cfg {
	c := Cfg{HdrCap: []int{-1, 0, 1, 2, 5, 64}[rr.Intn(6)], ContactCap: []int{-1, 0, 1, 2, 6}[rr.Intn(5)], ParamCap: []int{0, 1, 2, 3, 8}[rr.Intn(5)]}
	if p.Group == "tok" {
		if rr.Intn(4) == 0 {
			c.Flags = sipsp.POptFlags(rr.Intn(256))
		} else {
			c.Flags = TokFlagSets[rr.Intn(len(TokFlagSets))]
		}
	}
	if p.IsMsg {
		c.MsgFlags = uint8(rr.Intn(8))
	}
	if p.Group == "hdr" && c.HdrCap < 0 {
		c.HdrCap = 3
	}
	return c
}

// RunC02 is the monitor for C02.
func RunC02(r *core.Run) {
	r.Rule = "case = (exported incremental parser, option flags / capacities, input bytes, start offset, cut schedule); each step of ONE resumed object is compared with a fresh one-shot call on the same prefix (verdict and offset), and the public view at the definitive verdict (list parsers are driven value by value, a more-values verdict being definitive for that value); non-trivial = suspended at least once and then decided; enumerated stages run S1 (every prefix) and S2 (every single cut) on every string"
	r.Assume = []string{"views cover all exported fields/accessors of the parser objects (self test)", "list parsers are continued after more-values with a Reset()/fresh value object as GetViaBrSig / ParseAllContactValues do"}
	for _, f := range EnumFamilies {
		if f.Name == "message" {
			continue
		}
		runEnumFamily(r, f, modeResume, 0xC02)
	}
	n := r.Pick(300000, 8000000)
	r.Stage("long-values", n, func(w *core.Worker, idx int64) {
		rr := core.NewRand(r.Seed, 0xC02, 9, uint64(idx))
		p := Parsers[1+rr.Intn(len(Parsers)-1)]
		cfg := randCfg(rr, p)
		b := longValue(rr, p, &cfg)
		s := sc(w)
		var start int
		s.buf, start = withJunk(rr, b, s.buf)
		c := &Case{P: p, Cfg: cfg, Buf: s.buf, Start: start}
		if w.WantSample("long-values/" + p.Name) {
			w.Sample("long-values/"+p.Name, map[string]any{"input": core.Esc(c.Buf), "start": start, "tok_flags": uint(cfg.Flags)})
		}
		resumeSchedules(w, rr, c, view.MsgOpt{}, 400)
	})
	r.Require("C02 non-trivial resumed cases", r.Counter("nontrivial_cases"), 10000)
}

// RunC03 is the monitor for C03.
func RunC03(r *core.Run) {
	r.Rule = "case = (parser, configuration, buffer b); the fresh verdict V(n) is computed for EVERY prefix length n of b; once V(n) is not more-bytes, V(m) for every longer prefix m must have the same verdict, consumed offset and public view; since enumerated stages contain every extension of every string up to the length bound, every (b, suffix) pair within the bound is covered; non-trivial = a definitive verdict was reached strictly before the end of the buffer (so at least one extension was judged). End-of-input modes are not judged; for ParseSIPMsg without Content-Length (and without skip-body / CLen-required) the offset, body length, Buf and RawMsg are excluded"
	r.Assume = []string{"the documented exemptions are exactly: POptInputEndF, SIPMsgNoMoreDataF, body extent of a message without Content-Length"}
	for _, f := range EnumFamilies {
		runEnumFamily(r, f, modeStable, 0xC03)
	}
	// targeted: the mechanisms the anchors name, on long inputs with hostile suffixes
	suffixes := []string{" x", "\tx", "\r", "\n", "\r\n", "\r\n x", "\r\nx", "1", "\"", ";", ",", "From: a\r\n", "\r\n\r\n", "junk", ":", "\r\r", "\n\n x"}
	n := r.Pick(300000, 8000000)
	r.Stage("long-inputs+suffix-pool", n, func(w *core.Worker, idx int64) {
		rr := core.NewRand(r.Seed, 0xC03, 9, uint64(idx))
		p := Parsers[rr.Intn(len(Parsers))]
		cfg := randCfg(rr, p)
		if p.IsMsg {
			cfg.MsgFlags &^= sipsp.SIPMsgNoMoreDataF
		} else {
			cfg.Flags &^= sipsp.POptInputEndF
		}
		b := longValue(rr, p, &cfg)
		if rr.Intn(3) == 0 && len(b) > 2 {
			b = b[:rr.Intn(len(b))]
		}
		b = append(append([]byte(nil), b...), suffixes[rr.Intn(len(suffixes))]...)
		b = append(b, suffixes[rr.Intn(len(suffixes))]...)
		if len(b) > 700 {
			b = b[:700]
		}
		c := &Case{P: p, Cfg: cfg, Buf: b, Start: 0}
		if w.WantSample("long/" + p.Name) {
			w.Sample("long/"+p.Name, map[string]any{"input": core.Esc(c.Buf), "msg_flags": cfg.MsgFlags, "tok_flags": uint(cfg.Flags)})
		}
		d := stableCheck(w, c, 0)
		if d >= 0 && d < len(b) {
			w.Nontrivial(core.HashBytes(b) ^ core.HashStr(p.Name) ^ uint64(cfg.Flags)<<32 ^ uint64(cfg.MsgFlags)<<48)
			w.Inc("nontrivial_cases")
		}
	})
	// framed bodies: exactly n-1 / n / n+1 bytes available
	r.Stage("message-body-boundary", r.Pick(100000, 2000000), func(w *core.Worker, idx int64) {
		rr := core.NewRand(r.Seed, 0xC03, 10, uint64(idx))
		m := gen.Msg(rr, gen.MsgOpts{MinHdrs: 1, MaxHdrs: 6, CLenMode: 2 + rr.Intn(3), MaxBody: 12})
		b := append(append([]byte(nil), m.Raw...), "INVITE sip:next SIP/2.0\r\n"[:rr.Intn(20)]...)
		cfg := Cfg{HdrCap: -1, ContactCap: -1, MsgFlags: uint8(rr.Intn(4))}
		c := &Case{P: Parsers[0], Cfg: cfg, Buf: b, Start: 0}
		d := stableCheck(w, c, 0)
		if d >= 0 && d < len(b) {
			w.Nontrivial(core.HashBytes(b) ^ uint64(cfg.MsgFlags)<<48)
			w.Inc("nontrivial_cases")
		}
	})
	// long lines / long messages: sampled prefix lengths around powers of two and table sizes
	r.Stage("long-lines", r.Pick(1500, 40000), func(w *core.Worker, idx int64) {
		rr := core.NewRand(r.Seed, 0xC03, 11, uint64(idx))
		L := []int{300, 1000, 4090, 8185, 8200, 9000, 16390, 20000, 33000, 60000}[rr.Intn(10)] + rr.Intn(16)
		fill := func(n int, alpha string) []byte { return rr.Bytes(n, []byte(alpha)) }
		var b []byte
		p := Parsers[0]
		switch rr.Intn(6) {
		case 0: // one very long generic header value
			b = append([]byte("INVITE sip:a SIP/2.0\r\nSubject: "), fill(L, "abc def,;=\t")...)
			b = append(b, "\r\nl: 0\r\n\r\n"...)
		case 1: // long folded value
			b = []byte("INVITE sip:a SIP/2.0\r\nX: a")
			for len(b) < L {
				b = append(b, "\r\n  more words here"...)
			}
			b = append(b, "\r\nCSeq: 1 INVITE\r\n\r\n"...)
		case 2: // long From display name / URI / params
			b = append([]byte("SIP/2.0 200 OK\r\nFrom: \""), fill(L/2, "abc \\\\x,;")...)
			b = append(b, "\" <sip:"...)
			b = append(b, fill(L/2, "abc.@:;=")...)
			b = append(b, ">;tag=1\r\nl:0\r\n\r\n"...)
		case 3: // many contacts in one header
			b = []byte("REGISTER sip:r SIP/2.0\r\nContact: <sip:a>")
			for len(b) < L {
				b = append(b, fmt.Sprintf(", <sip:u%d@h>;expires=%d;q=0.%d", rr.Intn(1000), rr.Intn(4000), rr.Intn(10))...)
			}
			b = append(b, "\r\n\r\n"...)
		case 4: // long request URI / reason
			b = append([]byte("INVITE sip:"), fill(L, "abc.@:;=?&")...)
			b = append(b, " SIP/2.0\r\nVia: x\r\n\r\n"...)
		default: // many headers
			b = []byte("OPTIONS sip:a SIP/2.0\r\n")
			for len(b) < L {
				b = append(b, fmt.Sprintf("X-H%d: v%d\r\n", rr.Intn(100), rr.Intn(100))...)
			}
			b = append(b, "\r\n"...)
		}
		if len(b) > 65535 {
			b = b[:65535]
		}
		cfg := Cfg{HdrCap: []int{-1, 0, 3, 64}[rr.Intn(4)], ContactCap: []int{-1, 0, 2}[rr.Intn(3)], MsgFlags: uint8(rr.Intn(4))}
		// prefix sample: neighbourhoods of powers of two / 4096 multiples, random points, the end
		var ps []int
		for _, c := range []int{255, 256, 1023, 1024, 4095, 4096, 8191, 8192, 8193, 12288, 16383, 16384, 32767, 32768, 49152, 65535} {
			for d := -1; d <= 1; d++ {
				ps = append(ps, c+d)
			}
		}
		for i := 0; i < 25; i++ {
			ps = append(ps, rr.Intn(len(b)+1))
		}
		for d := 0; d <= 12; d++ {
			ps = append(ps, len(b)-d)
		}
		sort.Ints(ps)
		c := &Case{P: p, Cfg: cfg, Buf: b, Start: 0}
		d := stableCheckAt(w, c, 0, ps)
		if d >= 0 && d < len(b) {
			w.Nontrivial(core.HashBytes(b[:64]) ^ uint64(len(b))<<32 ^ uint64(cfg.MsgFlags)<<60)
			w.Inc("nontrivial_cases")
		}
		w.Inc("long_cases")
	})
	r.Require("C03 non-trivial cases", r.Counter("nontrivial_cases"), 10000)
}
