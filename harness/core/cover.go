package core

import (
	"bufio"
	"os"
	"sort"
	"strconv"
	"strings"
)

// CoverageSummary condenses the output of `go tool covdata func` (library package only) written
// by the coverage pass of ./check. It is observability for the evidence file - which library
// functions this property's workload actually drove - and never part of a verdict.
func CoverageSummary(path string) map[string]any {
	f, err := os.Open(path)
	if err != nil {
		return nil
	}
	defer f.Close()
	type fn struct {
		name string
		pct  float64
	}
	var fns []fn
	total := ""
	sc := bufio.NewScanner(f)
	for sc.Scan() {
		fld := strings.Fields(sc.Text())
		if len(fld) < 3 {
			continue
		}
		pct, err := strconv.ParseFloat(strings.TrimSuffix(fld[len(fld)-1], "%"), 64)
		if err != nil {
			continue
		}
		if fld[0] == "total" {
			total = fld[len(fld)-1]
			continue
		}
		loc := fld[0]
		if i := strings.LastIndex(loc, "/"); i >= 0 {
			loc = loc[i+1:]
		}
		loc = strings.TrimSuffix(loc, ":")
		if strings.HasPrefix(loc, "verif_hooks.go") || !strings.Contains(fld[0], "intuitivelabs/sipsp/") {
			continue // hooks and the monitor's own main package (instrumented only so that the data gets written)
		}
		fns = append(fns, fn{loc + " " + fld[1], pct})
	}
	if len(fns) == 0 {
		return nil
	}
	zero, partial, entered := []string{}, []string{}, []string{}
	full := 0
	for _, x := range fns {
		if x.pct > 0 {
			entered = append(entered, x.name+" "+strconv.FormatFloat(x.pct, 'f', 1, 64)+"%")
		}
		switch {
		case x.pct == 0:
			zero = append(zero, x.name)
		case x.pct < 60:
			partial = append(partial, x.name+" "+strconv.FormatFloat(x.pct, 'f', 1, 64)+"%")
		case x.pct == 100:
			full++
		}
	}
	sort.Strings(zero)
	sort.Strings(partial)
	sort.Strings(entered)
	return map[string]any{
		"total_statements_covered":   total,
		"functions":                  len(fns),
		"functions_fully_covered":    full,
		"functions_never_entered":    len(zero),
		"never_entered":              zero,
		"functions_below_60_percent": partial,
		"note":                       "measured on a second, coverage-instrumented run of the same property at quick sizes with the same seed; its verdict is ignored",
	}
}
