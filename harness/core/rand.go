// Package core holds the run-time machinery shared by all monitors:
// deterministic per-case PRNG, worker pool with case coordinates, panic
// guard, hang watchdog, violation/replay files, known findings, evidence.
package core

// Mix is the splitmix64 finalizer.
func Mix(x uint64) uint64 {
	x ^= x >> 30
	x *= 0xbf58476d1ce4e5b9
	x ^= x >> 27
	x *= 0x94d049bb133111eb
	x ^= x >> 31
	return x
}

// Rand is a small deterministic PRNG (splitmix64 sequence). A case's PRNG
// is a pure function of (seed, stage, index): nothing depends on time,
// scheduling or map order.
type Rand struct{ s uint64 }

// NewRand derives a PRNG from a list of coordinates.
func NewRand(parts ...uint64) *Rand {
	s := uint64(0x9E3779B97F4A7C15)
	for _, p := range parts {
		s = Mix(s^p) + 0x632BE59BD9B4E019
	}
	return &Rand{s: s}
}

// HashStr hashes a string to 64 bits (FNV-1a, then mixed).
func HashStr(s string) uint64 {
	h := uint64(14695981039346656037)
	for i := 0; i < len(s); i++ {
		h ^= uint64(s[i])
		h *= 1099511628211
	}
	return Mix(h)
}

// HashBytes hashes a byte slice to 64 bits.
func HashBytes(b []byte) uint64 {
	h := uint64(14695981039346656037)
	for _, c := range b {
		h ^= uint64(c)
		h *= 1099511628211
	}
	return Mix(h)
}

// U64 returns the next 64 random bits.
func (r *Rand) U64() uint64 {
	r.s += 0x9E3779B97F4A7C15
	return Mix(r.s)
}

// Intn returns a number in [0,n). n<=0 gives 0.
func (r *Rand) Intn(n int) int {
	if n <= 1 {
		return 0
	}
	return int(r.U64() % uint64(n))
}

// Range returns a number in [lo,hi].
func (r *Rand) Range(lo, hi int) int {
	if hi <= lo {
		return lo
	}
	return lo + r.Intn(hi-lo+1)
}

// Chance is true with probability num/den.
func (r *Rand) Chance(num, den int) bool { return r.Intn(den) < num }

// Bool is a fair coin.
func (r *Rand) Bool() bool { return r.U64()&1 == 1 }

// Byte picks one byte of the alphabet.
func (r *Rand) Byte(alpha []byte) byte { return alpha[r.Intn(len(alpha))] }

// Str picks one string.
func (r *Rand) Str(pool []string) string { return pool[r.Intn(len(pool))] }

// Bytes returns n bytes from the alphabet.
func (r *Rand) Bytes(n int, alpha []byte) []byte {
	b := make([]byte, n)
	for i := range b {
		b[i] = alpha[r.Intn(len(alpha))]
	}
	return b
}

// RawBytes returns n uniform bytes.
func (r *Rand) RawBytes(n int) []byte {
	b := make([]byte, n)
	for i := 0; i < n; i += 8 {
		v := r.U64()
		for j := 0; j < 8 && i+j < n; j++ {
			b[i+j] = byte(v >> (8 * uint(j)))
		}
	}
	return b
}

// Perm returns a permutation of 0..n-1.
func (r *Rand) Perm(n int) []int {
	p := make([]int, n)
	for i := range p {
		p[i] = i
	}
	for i := n - 1; i > 0; i-- {
		j := r.Intn(i + 1)
		p[i], p[j] = p[j], p[i]
	}
	return p
}
