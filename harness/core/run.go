package core

import (
	"context"
	"encoding/hex"
	"encoding/json"
	"fmt"
	"math/bits"
	"os"
	"os/exec"
	"path/filepath"
	"runtime"
	"runtime/debug"
	"sort"
	"strconv"
	"strings"
	"sync"
	"sync/atomic"
	"time"
)

// ExitInconclusive is the process exit code for an inconclusive run (the
// check script maps it to 2; a raw 2 is what the Go runtime uses for a crash).
const ExitInconclusive = 4

// StateNamer (set by the monitor package) renders automaton states for the evidence.
var StateNamer func(parser string, st uint32) string

// VerifDir is the root of the verification tree (evidence, replay, known findings).
var VerifDir = "/verif"

// Replay identifies one case to re-run.
type Replay struct {
	Property string `json:"property"`
	Tier     string `json:"tier"`
	Seed     uint64 `json:"seed"`
	Stage    string `json:"stage"`
	Index    int64  `json:"index"`
}

// Violation is one refuted case. It is also the content of a replay file.
type Violation struct {
	Replay
	Class    string         `json:"class"`             // dedup class (monitor specific)
	Finding  string         `json:"finding,omitempty"` // id of a KNOWN_FINDINGS matcher that recognised it
	What     string         `json:"what"`              // one line: what was observed vs expected
	Input    string         `json:"input,omitempty"`   // printable-escaped bytes
	InputHex string         `json:"input_hex,omitempty"`
	Detail   map[string]any `json:"detail,omitempty"`
	Stack    string         `json:"stack,omitempty"`
}

// StageStat is the per-stage part of the evidence.
type StageStat struct {
	Name       string           `json:"name"`
	Cases      int64            `json:"cases"`
	Exhaustive bool             `json:"exhaustive,omitempty"`
	Space      string           `json:"space,omitempty"`
	WallS      float64          `json:"wall_s"`
	Counters   map[string]int64 `json:"counters,omitempty"`
}

// Run is one execution of one property check.
type Run struct {
	Prop, Tier string
	Seed       uint64
	NW         int
	Replay     *Replay // non-nil: run only this case
	Verbose    bool

	start   time.Time
	mu      sync.Mutex
	viols   []*Violation
	nviol   int64
	byClass map[string]int
	abort   atomic.Bool
	stages  []*StageStat
	samples []any
	nsample map[string]int
	Extra   map[string]any
	// NoEvidence: coverage pass of ./check; the verdict is ignored and nothing is written
	NoEvidence bool
	Rule    string
	Assume  []string

	evals    atomic.Int64
	enumNT   atomic.Int64
	bitmap   []uint64
	inconcl  []string
	curStage string
	workers  []*Worker
	wdStop   chan struct{}
	states   map[string]map[uint32]int64
	known    map[string]string // finding id -> text (known:)
	fixed    map[string]string // finding id -> text (fixed:)
}

// Worker is the per-goroutine context handed to case functions.
type Worker struct {
	R       *Run
	ID      int
	Stage   string
	Idx     int64
	Cnt     map[string]int64
	Scratch any
	evals   int64
	states  map[string]map[uint32]int64
	curIdx  atomic.Int64
	curT    atomic.Int64
}

const bitmapBits = 1 << 27

// NewRun creates a run for one property.
func NewRun(prop, tier string, seed uint64) *Run {
	r := &Run{Prop: prop, Tier: tier, Seed: seed, NW: runtime.GOMAXPROCS(0),
		start: time.Now(), byClass: map[string]int{}, nsample: map[string]int{},
		Extra: map[string]any{}, states: map[string]map[uint32]int64{},
		bitmap: make([]uint64, bitmapBits/64)}
	r.loadFindings()
	return r
}

func (r *Run) loadFindings() {
	r.known = map[string]string{}
	r.fixed = map[string]string{}
	b, err := os.ReadFile(filepath.Join(VerifDir, "KNOWN_FINDINGS.txt"))
	if err != nil {
		return
	}
	for _, ln := range strings.Split(string(b), "\n") {
		ln = strings.TrimSpace(ln)
		var kind string
		switch {
		case strings.HasPrefix(ln, "known:"):
			kind = "known"
		case strings.HasPrefix(ln, "fixed:"):
			kind = "fixed"
		default:
			continue
		}
		rest := strings.TrimSpace(ln[6:])
		var prop, fid string
		var text []string
		for _, f := range strings.Fields(rest) {
			switch {
			case strings.HasPrefix(f, "property=") && prop == "":
				prop = f[9:]
			case strings.HasPrefix(f, "finding=") && fid == "":
				fid = f[8:]
			default:
				text = append(text, f)
			}
		}
		if fid == "" {
			continue
		}
		key := prop + "/" + fid
		if kind == "known" {
			r.known[key] = strings.Join(text, " ")
		} else {
			r.fixed[key] = strings.Join(text, " ")
		}
	}
}

// Aborted tells case functions that enough violations were collected.
func (r *Run) Aborted() bool { return r.abort.Load() }

// Quick reports whether this is the quick tier.
func (r *Run) Quick() bool { return r.Tier != "thorough" }

// Pick returns q in the quick tier and t in the thorough tier.
func (r *Run) Pick(q, t int64) int64 {
	if r.Quick() {
		return q
	}
	return t
}

// Stage runs fn for every index in [0,n) on all workers. In replay mode only
// the recorded case is run.
func (r *Run) Stage(name string, n int64, fn func(w *Worker, idx int64)) *StageStat {
	st := &StageStat{Name: name, Counters: map[string]int64{}}
	if r.Replay != nil {
		if r.Replay.Stage != name {
			return st
		}
		w := &Worker{R: r, Stage: name, Cnt: map[string]int64{}, states: map[string]map[uint32]int64{}}
		w.Idx = r.Replay.Index
		runCase(w, fn, r.Replay.Index)
		r.evals.Add(w.evals)
		st.Cases = 1
		st.Counters = w.Cnt
		r.mu.Lock()
		r.stages = append(r.stages, st)
		r.mu.Unlock()
		return st
	}
	if r.Aborted() {
		return st
	}
	t0 := time.Now()
	r.curStage = name
	nw := r.NW
	if int64(nw) > n {
		nw = int(n)
	}
	if nw < 1 {
		nw = 1
	}
	chunk := n / int64(nw*64)
	if chunk < 1 {
		chunk = 1
	}
	if chunk > 1024 {
		chunk = 1024
	}
	var next atomic.Int64
	var done atomic.Int64
	ws := make([]*Worker, nw)
	for i := range ws {
		ws[i] = &Worker{R: r, ID: i, Stage: name, Cnt: map[string]int64{}, states: map[string]map[uint32]int64{}}
		ws[i].curIdx.Store(-1)
	}
	r.mu.Lock()
	r.workers = ws
	r.mu.Unlock()
	r.startWatchdog()
	var wg sync.WaitGroup
	for i := range ws {
		wg.Add(1)
		go func(w *Worker) {
			defer wg.Done()
			for !r.Aborted() {
				lo := next.Add(chunk) - chunk
				if lo >= n {
					return
				}
				hi := lo + chunk
				if hi > n {
					hi = n
				}
				for idx := lo; idx < hi; idx++ {
					w.Idx = idx
					w.curT.Store(time.Now().UnixNano())
					w.curIdx.Store(idx)
					runCase(w, fn, idx)
					done.Add(1)
					if r.Aborted() {
						break
					}
				}
				w.curIdx.Store(-1)
			}
		}(ws[i])
	}
	wg.Wait()
	r.stopWatchdog()
	st.Cases = done.Load()
	for _, w := range ws {
		r.evals.Add(w.evals)
		for k, v := range w.Cnt {
			st.Counters[k] += v
		}
		r.mu.Lock()
		for p, m := range w.states {
			if r.states[p] == nil {
				r.states[p] = map[uint32]int64{}
			}
			for s, c := range m {
				r.states[p][s] += c
			}
		}
		r.mu.Unlock()
	}
	st.WallS = time.Since(t0).Seconds()
	r.mu.Lock()
	r.stages = append(r.stages, st)
	r.workers = nil
	r.mu.Unlock()
	if r.Verbose {
		fmt.Fprintf(os.Stderr, "stage %-28s cases=%d wall=%.1fs %v\n", name, st.Cases, st.WallS, st.Counters)
	}
	return st
}

// runCase runs one case; a panic that escapes the monitor's own guards (it
// can only come from a call into the library under test) is recorded as a
// violation of the property being checked instead of killing the process.
func runCase(w *Worker, fn func(w *Worker, idx int64), idx int64) {
	defer func() {
		if e := recover(); e != nil {
			msg := fmt.Sprint(e)
			stk := string(debug.Stack())
			w.Fail("panic-in-case", func() *Violation {
				return &Violation{What: "a call into sipsp panicked while this case was evaluated: " + msg, Stack: stk}
			})
		}
	}()
	fn(w, idx)
}

// Eval counts n oracle-judged calls into the library.
func (w *Worker) Eval(n int) { w.evals += int64(n) }

// Inc bumps a named counter of the current stage.
func (w *Worker) Inc(name string) { w.Cnt[name]++ }

// Add adds to a named counter of the current stage.
func (w *Worker) Add(name string, n int64) { w.Cnt[name] += n }

// State records that a parser was observed (suspended / resumed) in an
// automaton state; the evidence reports the distinct states seen.
func (w *Worker) State(parser string, st uint32) {
	m := w.states[parser]
	if m == nil {
		m = map[uint32]int64{}
		w.states[parser] = m
	}
	m[st]++
}

// Nontrivial marks one non-trivial case identified by a 64-bit hash; the
// number of distinct ones is lower-bounded with a bitmap.
func (w *Worker) Nontrivial(h uint64) {
	h = Mix(h) % bitmapBits
	p := &w.R.bitmap[h/64]
	bit := uint64(1) << (h % 64)
	for {
		old := atomic.LoadUint64(p)
		if old&bit != 0 || atomic.CompareAndSwapUint64(p, old, old|bit) {
			return
		}
	}
}

// NontrivialEnum marks one non-trivial case of an enumerated stage (distinct
// by construction).
func (w *Worker) NontrivialEnum() { w.R.enumNT.Add(1) }

// Sample stores up to 3 samples per stage label.
func (w *Worker) Sample(label string, s any) {
	r := w.R
	r.mu.Lock()
	if r.nsample[label] < 3 && len(r.samples) < 60 {
		r.nsample[label]++
		r.samples = append(r.samples, map[string]any{"stage": label, "case": s})
	}
	r.mu.Unlock()
}

// WantSample is a cheap pre-check for Sample.
func (w *Worker) WantSample(label string) bool {
	r := w.R
	r.mu.Lock()
	ok := r.nsample[label] < 3 && len(r.samples) < 60
	r.mu.Unlock()
	return ok
}

// Fail records a violation of class cls. build is only called when the
// violation is going to be stored.
func (w *Worker) Fail(cls string, build func() *Violation) { w.FailF(cls, "", build) }

// FailF is Fail with the finding id known up front: a violation that a
// 'known:' line of KNOWN_FINDINGS.txt lists is recorded (one example) but does
// not count towards the early-abort limit.
func (w *Worker) FailF(cls string, finding string, build func() *Violation) {
	r := w.R
	if finding != "" {
		if _, ok := r.known[r.Prop+"/"+finding]; ok {
			r.mu.Lock()
			r.byClass["known:"+finding]++
			first := r.byClass["known:"+finding] == 1
			r.mu.Unlock()
			if first || r.Replay != nil {
				v := build()
				v.Property, v.Tier, v.Seed, v.Stage, v.Index, v.Class, v.Finding = r.Prop, r.Tier, r.Seed, w.Stage, w.Idx, cls, finding
				r.mu.Lock()
				r.viols = append(r.viols, v)
				r.mu.Unlock()
			}
			return
		}
	}
	n := atomic.AddInt64(&r.nviol, 1)
	r.mu.Lock()
	r.byClass[cls]++
	store := r.byClass[cls] <= 3 && len(r.viols) < 60
	r.mu.Unlock()
	if store || r.Replay != nil {
		v := build()
		if finding != "" && v.Finding == "" {
			v.Finding = finding
		}
		v.Property = r.Prop
		v.Tier = r.Tier
		v.Seed = r.Seed
		v.Stage = w.Stage
		v.Index = w.Idx
		v.Class = cls
		r.mu.Lock()
		r.viols = append(r.viols, v)
		r.mu.Unlock()
	}
	if n > 300 {
		r.abort.Store(true)
	}
}

// Esc makes bytes printable.
func Esc(b []byte) string {
	if len(b) > 600 {
		return strconv.Quote(string(b[:600])) + fmt.Sprintf("...(+%d bytes)", len(b)-600)
	}
	return strconv.Quote(string(b))
}

// V is a helper to build a violation.
func V(what string, input []byte, detail map[string]any) *Violation {
	v := &Violation{What: what, Detail: detail}
	if input != nil {
		v.Input = Esc(input)
		if len(input) <= 4096 {
			v.InputHex = hex.EncodeToString(input)
		}
	}
	return v
}

// Guard runs fn and converts a panic into (true, message, stack).
func Guard(fn func()) (panicked bool, msg string, stack string) {
	defer func() {
		if e := recover(); e != nil {
			panicked = true
			msg = fmt.Sprint(e)
			stack = string(debug.Stack())
		}
	}()
	fn()
	return
}

// Inconclusive records a reason why the run cannot count as "held".
func (r *Run) Inconclusive(reason string) {
	r.mu.Lock()
	r.inconcl = append(r.inconcl, reason)
	r.mu.Unlock()
}

// Require makes the run inconclusive when an observation floor is not met.
func (r *Run) Require(what string, got, min int64) {
	if r.Replay != nil || r.Aborted() {
		return
	}
	if got < min {
		r.Inconclusive(fmt.Sprintf("%s: observed %d < floor %d", what, got, min))
	}
}

// Counter sums a named counter over all stages run so far.
func (r *Run) Counter(name string) int64 {
	r.mu.Lock()
	defer r.mu.Unlock()
	var s int64
	for _, st := range r.stages {
		s += st.Counters[name]
	}
	return s
}

func (r *Run) startWatchdog() {
	r.wdStop = make(chan struct{})
	stop := r.wdStop
	go func() {
		t := time.NewTicker(2 * time.Second)
		defer t.Stop()
		for {
			select {
			case <-stop:
				return
			case <-t.C:
				now := time.Now().UnixNano()
				r.mu.Lock()
				ws := r.workers
				r.mu.Unlock()
				for _, w := range ws {
					idx := w.curIdx.Load()
					if idx >= 0 && now-w.curT.Load() > int64(25*time.Second) && w.curIdx.Load() == idx {
						r.hang(w.Stage, idx)
					}
				}
			}
		}
	}()
}

func (r *Run) stopWatchdog() {
	if r.wdStop != nil {
		close(r.wdStop)
		r.wdStop = nil
	}
}

// hang handles a hang suspect: confirm it by re-running that single case in
// a fresh process with a 90 s limit. Confirmed => violation; else inconclusive.
func (r *Run) hang(stage string, idx int64) {
	v := &Violation{Replay: Replay{Property: r.Prop, Tier: r.Tier, Seed: r.Seed, Stage: stage, Index: idx},
		Class: "hang", What: "a call into sipsp did not return within 25 s (hang suspect)"}
	path := r.writeReplay(v)
	ctx, cancel := context.WithTimeout(context.Background(), 90*time.Second)
	defer cancel()
	cmd := exec.CommandContext(ctx, os.Args[0], "-prop", r.Prop, "-replay", path)
	cmd.Env = append(os.Environ(), "VERIF_NO_WATCHDOG=1")
	out, err := cmd.CombinedOutput()
	if ctx.Err() != nil {
		fmt.Printf("hang confirmed: stage %s case %d did not finish in 90 s in a fresh process\n", stage, idx)
		fmt.Printf("VIOLATION property=%s replay=%s\n", r.Prop, path)
		r.nviol++
		r.writeEvidence(1)
		os.Exit(1)
	}
	fmt.Printf("INCONCLUSIVE property=%s reason=hang suspect at stage %s case %d not confirmed (replay err=%v, out=%q)\n",
		r.Prop, stage, idx, err, truncate(string(out), 300))
	os.Exit(ExitInconclusive)
}

func truncate(s string, n int) string {
	if len(s) > n {
		return s[:n] + "..."
	}
	return s
}

func (r *Run) writeReplay(v *Violation) string {
	dir := filepath.Join(VerifDir, "replay", r.Prop)
	os.MkdirAll(dir, 0o755)
	h := HashStr(fmt.Sprintf("%s|%s|%d|%s|%d|%s", v.Property, v.Tier, v.Seed, v.Stage, v.Index, v.Class))
	path := filepath.Join(dir, fmt.Sprintf("%s-%016x.json", strings.ReplaceAll(v.Stage, "/", "_"), h))
	b, _ := json.MarshalIndent(v, "", " ")
	os.WriteFile(path, b, 0o644)
	return path
}

// LoadReplay reads a replay file.
func LoadReplay(path string) (*Replay, error) {
	b, err := os.ReadFile(path)
	if err != nil {
		return nil, err
	}
	var v Violation
	if err := json.Unmarshal(b, &v); err != nil {
		return nil, err
	}
	return &v.Replay, nil
}

func (r *Run) distinct() int64 {
	var n int64
	for _, w := range r.bitmap {
		n += int64(bits.OnesCount64(w))
	}
	return n + r.enumNT.Load()
}

func (r *Run) writeEvidence(unlisted int) {
	if r.Replay != nil || r.NoEvidence {
		return
	}
	stateCov := map[string]any{}
	for p, m := range r.states {
		ids := make([]int, 0, len(m))
		for s := range m {
			ids = append(ids, int(s))
		}
		sort.Ints(ids)
		ent := map[string]any{"distinct": len(ids)}
		if StateNamer != nil {
			names := make([]string, 0, len(ids))
			for _, id := range ids {
				names = append(names, fmt.Sprintf("%s x%d", StateNamer(p, uint32(id)), m[uint32(id)]))
			}
			sort.Strings(names)
			ent["suspended_in (state x times)"] = names
		} else {
			ent["states"] = ids
		}
		stateCov[p] = ent
	}
	allEx := len(r.stages) > 0
	for _, st := range r.stages {
		if !st.Exhaustive {
			allEx = false
		}
	}
	cov := map[string]any{
		"evaluations":         r.evals.Load(),
		"distinct_nontrivial": r.distinct(),
		"rule":                r.Rule,
		"samples":             r.samples,
		"stages":              r.stages,
		"exhaustive":          allEx,
	}
	if len(stateCov) > 0 {
		cov["automaton_states_observed"] = stateCov
	}
	for k, v := range r.Extra {
		cov[k] = v
	}
	if len(r.inconcl) > 0 {
		cov["inconclusive"] = r.inconcl
	}
	tier := r.Tier
	if tier != "thorough" {
		tier = "quick"
	}
	ev := map[string]any{
		"property_id": r.Prop,
		"tier":        tier,
		"seed":        int64(r.Seed & 0x7fffffffffffffff),
		"level":       "exploration",
		"coverage":    cov,
		"assumptions": r.Assume,
		"wall_s":      time.Since(r.start).Seconds(),
		"violations":  unlisted,
	}
	dir := filepath.Join(VerifDir, "evidence")
	os.MkdirAll(dir, 0o755)
	b, _ := json.MarshalIndent(ev, "", " ")
	tmp := filepath.Join(dir, r.Prop+".json.tmp")
	os.WriteFile(tmp, b, 0o644)
	os.Rename(tmp, filepath.Join(dir, r.Prop+".json"))
}

// Finish prints the verdict lines, writes evidence and replay files and
// returns the process exit code (0 held, 1 violation, 2 inconclusive).
func (r *Run) Finish() int {
	unlisted := 0
	knownSeen := map[string]bool{}
	var knownOrder []string
	sort.SliceStable(r.viols, func(i, j int) bool {
		if r.viols[i].Stage != r.viols[j].Stage {
			return r.viols[i].Stage < r.viols[j].Stage
		}
		return r.viols[i].Index < r.viols[j].Index
	})
	printed := 0
	for _, v := range r.viols {
		key := r.Prop + "/" + v.Finding
		if v.Finding != "" {
			if _, ok := r.known[key]; ok {
				if !knownSeen[key] {
					knownSeen[key] = true
					knownOrder = append(knownOrder, key)
				}
				continue
			}
			if txt, ok := r.fixed[key]; ok {
				if v.Detail == nil {
					v.Detail = map[string]any{}
				}
				v.Detail["regression_of_fixed_finding"] = v.Finding + ": " + txt
			}
		}
		unlisted++
		path := r.writeReplay(v)
		if printed < 25 {
			printed++
			fmt.Printf("violation: stage=%s case=%d class=%s: %s\n  input=%s\n", v.Stage, v.Index, v.Class, v.What, v.Input)
			fmt.Printf("VIOLATION property=%s replay=%s\n", r.Prop, path)
		}
	}
	for _, key := range knownOrder {
		fid := key[strings.Index(key, "/")+1:]
		fmt.Printf("KNOWN-FINDING: property=%s finding=%s %s\n", r.Prop, fid, r.known[key])
	}
	if len(knownOrder) > 0 {
		r.Extra["known_findings_seen"] = knownOrder
	}
	r.Extra["violation_classes"] = r.byClass
	r.writeEvidence(unlisted)
	wall := time.Since(r.start).Seconds()
	if r.Replay != nil {
		if unlisted > 0 {
			return 1
		}
		fmt.Printf("replay: case held (property=%s stage=%s index=%d)\n", r.Prop, r.Replay.Stage, r.Replay.Index)
		return 0
	}
	if unlisted > 0 {
		fmt.Printf("property=%s tier=%s seed=%d: %d violating cases in %d classes (evaluations=%d, %.1fs)\n",
			r.Prop, r.Tier, r.Seed, r.nviol, len(r.byClass), r.evals.Load(), wall)
		return 1
	}
	if len(r.inconcl) > 0 {
		for _, s := range r.inconcl {
			fmt.Printf("INCONCLUSIVE property=%s reason=%s\n", r.Prop, s)
		}
		return ExitInconclusive
	}
	fmt.Printf("HELD property=%s tier=%s seed=%d evaluations=%d distinct_nontrivial=%d stages=%d wall=%.1fs\n",
		r.Prop, r.Tier, r.Seed, r.evals.Load(), r.distinct(), len(r.stages), wall)
	return 0
}
