#!/usr/bin/env python3-vt
# validate MANIFEST.json and every evidence file against the schemas
import json, sys, glob
import jsonschema
ms = json.load(open('/root/.vp/MANIFEST.schema.json'))
es = json.load(open('/root/.vp/EVIDENCE.schema.json'))
m = json.load(open('/verif/MANIFEST.json'))
jsonschema.validate(m, ms)
props = [json.loads(l)['id'] for l in open('/verif/properties.jsonl')]
claimed = [c['property_id'] for c in m['checks']]
na = [c['property_id'] for c in m.get('not_applicable', [])]
assert sorted(claimed + na) == sorted(props), (sorted(claimed + na), props)
print('MANIFEST ok: claimed', len(claimed), 'not_applicable', len(na))
for f in sorted(glob.glob('/verif/evidence/*.json')):
    e = json.load(open(f))
    jsonschema.validate(e, es)
    print(f, 'ok', e['tier'], 'evals', e['coverage']['evaluations'], 'distinct', e['coverage']['distinct_nontrivial'], 'viol', e.get('violations'))
