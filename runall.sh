#!/bin/bash
# runall.sh [quick|thorough] [seed]  - run every registered check once, print a summary table
tier=${1:-quick}; seed=${2:-1}
cd "$(dirname "$0")"
for id in $(python3 -c "import json;print(' '.join(c['property_id'] for c in json.load(open('MANIFEST.json'))['checks']))"); do
  s=$(date +%s.%N)
  out=$(VERIF_SEED=$seed ./check $id $tier 2>&1); rc=$?
  e=$(date +%s.%N)
  printf "%s rc=%d %6.1fs %s\n" $id $rc $(echo "$e - $s" | bc) "$(echo "$out" | grep -E '^(HELD|VIOLATION|INCONCLUSIVE|KNOWN-FINDING)' | head -3 | cut -c1-160 | tr '\n' '|')"
done
