#!/bin/bash
# usage: commit_fix.sh <Dn> "<message>"   (run after editing /repo)
set -e
export GOFLAGS=-mod=mod GOPROXY=off GOSUMDB=off GOTOOLCHAIN=local
cd /repo
go build ./... 
go test -vet=off -count=1 ./... | tail -1
go test -tags verif -vet=off -count=1 ./... | tail -1
git add -A
git commit -qm "$2"
git format-patch -1 --stdout > /verif/fixes/$1.patch
git log --oneline | head -1
