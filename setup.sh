#!/bin/bash
# offline setup: warm the Go build cache by building the monitor binary once
# (every check rebuilds it from /repo's working tree anyway)
cd "$(dirname "$0")"
export GOFLAGS=-mod=mod GOPROXY=off GOSUMDB=off GOTOOLCHAIN=local
export GOCACHE=${GOCACHE:-$(pwd)/.build/gocache}
mkdir -p .build
(cd harness && cp -f /repo/go.sum go.sum && go build -tags verif -o ../.build/sipspmon ./cmd/sipspmon && go build -tags verif -race -o ../.build/sipspmon-race ./cmd/sipspmon)
