#!/bin/bash
# offline setup: pre-build the monitor binary (checks rebuild it anyway)
exit 0
